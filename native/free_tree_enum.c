/* N(k) stand-in for yaep_free_tree (C13 T.free): exhaustive enumeration of small DAGs on the REAL code (staged yaep.c linked in as a
   library object) with a tracking allocator.  Shapes: up to 2 TERM, 1 NIL, 1 ERROR leaves; up to 3 abstract nodes in layers (a node's
   children are leaves or nodes of a lower layer; 0..3 children each, all choices incl. sharing); two of the abstract nodes may share
   one name block (same rule); the root is the top abstract node or an ALT list over the top two.  Checks after yaep_free_tree:
   every block reachable from the root was passed to parse_free exactly once, no other block was, termcb once per reachable TERM. */
#include <stdio.h>
#include <stdlib.h>
#include <string.h>
#include "yaep.h"
#ifndef MAXKIDS
#define MAXKIDS 3
#endif
#define NB 16
static void *blk[NB]; static int nblk, freed[NB], reach[NB], termc[NB], stray;
static void *talloc (size_t n) { void *p = calloc (1, n); blk[nblk++] = p; return p; }
static int id_of (void *p) { int i; for (i = 0; i < nblk; i++) if (blk[i] == p) return i; return -1; }
static int null_frees;
static void my_free (void *p) { int i = id_of (p); if (p == NULL) null_frees++; else if (i < 0) stray++; else freed[i]++; }
static void my_termcb (struct yaep_term *t) { int i; for (i = 0; i < nblk; i++) if (&((struct yaep_tree_node *) blk[i])->val.term == t) termc[i]++; }
static struct yaep_tree_node *leaf (enum yaep_tree_node_type ty) { struct yaep_tree_node *n = talloc (sizeof (*n)); n->type = ty; return n; }
static void mark (struct yaep_tree_node *n)
{
  struct yaep_tree_node **c; int i = id_of (n);
  if (n == NULL || reach[i]) return; reach[i] = 1;
  if (n->type == YAEP_ANODE) { reach[id_of ((void *) n->val.anode.name)] = 1; for (c = n->val.anode.children; *c != NULL; c++) mark (*c); }
  else if (n->type == YAEP_ALT) { mark (n->val.alt.node); mark (n->val.alt.next); }
}
static long cases, bad, nullbad;
/* build one configuration from a choice vector (mixed radix), run, check */
static void run_case (int nanodes, int share_name, int alt_root, int nk[3], int kid[3][MAXKIDS])
{
  struct yaep_tree_node *L[4], *A[3], *root; char *name[3]; int a, k, i; int type_of[NB];
  nblk = 0; stray = 0; null_frees = 0; memset (freed, 0, sizeof freed); memset (reach, 0, sizeof reach); memset (termc, 0, sizeof termc);
  L[0] = leaf (YAEP_TERM); L[1] = leaf (YAEP_TERM); L[2] = leaf (YAEP_NIL); L[3] = leaf (YAEP_ERROR);
  for (a = 0; a < nanodes; a++)
    {
      A[a] = talloc (sizeof (struct yaep_tree_node) + (MAXKIDS + 1) * sizeof (struct yaep_tree_node *)); A[a]->type = YAEP_ANODE;
      A[a]->val.anode.children = (struct yaep_tree_node **) ((char *) A[a] + sizeof (struct yaep_tree_node));
      if (a == 1 && share_name) name[a] = name[0]; else { name[a] = talloc (3); strcpy (name[a], a == 0 ? "a" : a == 1 ? "bb" : "c"); }
      A[a]->val.anode.name = name[a];
      for (k = 0; k < nk[a]; k++) A[a]->val.anode.children[k] = kid[a][k] < 4 ? L[kid[a][k]] : A[kid[a][k] - 4];
      A[a]->val.anode.children[nk[a]] = NULL;
    }
  if (alt_root)
    { struct yaep_tree_node *x = leaf (YAEP_ALT), *y = leaf (YAEP_ALT); x->val.alt.node = A[nanodes - 1]; x->val.alt.next = y; y->val.alt.node = A[nanodes - 2]; y->val.alt.next = NULL; root = x; }
  else root = A[nanodes - 1];
  for (i = 0; i < nblk; i++) type_of[i] = i < 4 ? (int) L[i]->type : -1;
  mark (root);
  yaep_free_tree (root, my_free, my_termcb);
  cases++;
  for (i = 0; i < nblk; i++)
    if (freed[i] != reach[i] || (type_of[i] == YAEP_TERM && termc[i] != reach[i])) { bad++; break; }
  if (stray) bad++;
  if (null_frees) { if (!nullbad) fprintf (stderr, "parse_free called with NULL: nanodes=%d share_name=%d alt_root=%d\n", nanodes, share_name, alt_root); nullbad++; }
  for (i = 0; i < nblk; i++) free (blk[i]);
}
static void enum_kids (int nanodes, int share_name, int alt_root, int nk[3], int kid[3][MAXKIDS], int a, int k)
{
  int c, nchoices;
  if (a == nanodes) { run_case (nanodes, share_name, alt_root, nk, kid); return; }
  if (k == nk[a]) { enum_kids (nanodes, share_name, alt_root, nk, kid, a + 1, 0); return; }
  nchoices = 4 + a;                       /* leaves + abstract nodes of lower layers */
  for (c = 0; c < nchoices; c++) { kid[a][k] = c; enum_kids (nanodes, share_name, alt_root, nk, kid, a, k + 1); }
}
int main (void)
{
  int nanodes, share, alt, nk[3], kid[3][MAXKIDS];
  for (nanodes = 1; nanodes <= 3; nanodes++)
    for (share = 0; share <= (nanodes >= 2); share++)
      for (alt = 0; alt <= (nanodes >= 2); alt++)
        for (nk[0] = 0; nk[0] <= MAXKIDS; nk[0]++)
          for (nk[1] = 0; nk[1] <= (nanodes >= 2 ? MAXKIDS : 0); nk[1]++)
            for (nk[2] = 0; nk[2] <= (nanodes >= 3 ? MAXKIDS : 0); nk[2]++)
              enum_kids (nanodes, share, alt, nk, kid, 0, 0);
  printf ("CASE yaep_free_tree %ld %s every reachable block released exactly once, termcb once per TERM (DAGs of <= 3 abstract nodes with <= %d children)\n", cases, bad ? "FAIL" : "OK", MAXKIDS);
  printf ("CASE parse_free_never_NULL %ld %s parse_free is only ever given blocks that came from parse_alloc (never NULL)\n", cases, nullbad ? "FAIL" : "OK");
  return bad != 0 || nullbad != 0;
}
