/* N(k) stand-in for the assumed clause of higher_prime_number (C19 HT.hpn): for every n in [0, K]
   the table size chosen by the REAL create_hash_table is a prime p with n < p <= 2n+3
   (so the probe step 1 + h % (p-2) is coprime to p and the probe sequence visits every slot). */
#include <stdio.h>
#include <stdlib.h>
#include "allocate.h"
#include "hashtab.h"
#ifndef K
#define K 20000
#endif
static unsigned hf (hash_table_entry_t e) { return (unsigned) (size_t) e; }
static int ef (hash_table_entry_t a, hash_table_entry_t b) { return a == b; }
int main (void)
{
  YaepAllocator *al = yaep_alloc_new (NULL, NULL, NULL, NULL); size_t n; long cases = 0; int bad = 0;
  for (n = 0; n <= K; n++)
    {
      hash_table_t h = create_hash_table (al, n, hf, ef); size_t p = hash_table_size (h), d; int prime = p >= 2;
      for (d = 2; d * d <= p; d++) if (p % d == 0) prime = 0;
      if (!prime || p <= n || p > 2 * n + 3 || p < 3) bad++;
      cases++; delete_hash_table (h);
    }
  printf ("CASE higher_prime_number %ld %s size is a prime in (n, 2n+3]\n", cases, bad ? "FAIL" : "OK");
  yaep_alloc_del (al); return bad;
}
