/* N(k) stand-in for C16 (the C++ class interface behaves identically to the C interface): one program links BOTH real libraries -
   libyaep (yaep.c compiled as C on the real hashtab.c / objstack.c / vlobject.c; through native/cxx_cside.c, which renames the three
   bison globals that both libraries export) and libyaep++ (the real yaep.cpp, which #includes yaep.c on the C++ containers of
   hashtab.cpp / objstack.cpp / vlobject.cpp) - and drives them with the same scenarios.  Everything the property lists is rendered
   into one string per scenario and compared: return codes, error codes and messages, syntax_error callbacks with their arguments,
   ambiguity flags, the trees (types, names, costs, codes, attributes, sharing) and what free_tree does (parse_free / termcb calls,
   blocks left).  ASan/UBSan/LeakSanitizer are on.  The C functions are declared by hand below because yaep.h hides them from C++.  */
#include <stdio.h>
#include <stdlib.h>
#include <string.h>
#include <string>
#include <map>
#include <vector>
#include "yaep.h"
extern "C" {
struct grammar *yaep_create_grammar (void);
int yaep_error_code (struct grammar *g);
const char *yaep_error_message (struct grammar *g);
int yaep_read_grammar (struct grammar *g, int strict_p, const char *(*read_terminal) (int *code),
                       const char *(*read_rule) (const char ***rhs, const char **abs_node, int *anode_cost, int **transl));
int yaep_parse_grammar (struct grammar *g, int strict_p, const char *description);
int yaep_set_lookahead_level (struct grammar *grammar, int level);
int yaep_set_debug_level (struct grammar *grammar, int level);
int yaep_set_one_parse_flag (struct grammar *grammar, int flag);
int yaep_set_cost_flag (struct grammar *grammar, int flag);
int yaep_set_error_recovery_flag (struct grammar *grammar, int flag);
int yaep_set_recovery_match (struct grammar *grammar, int n_toks);
int yaep_parse (struct grammar *grammar, int (*read_token) (void **attr),
                void (*syntax_error) (int, void *, int, void *, int, void *),
                void *(*parse_alloc) (int nmemb), void (*parse_free) (void *mem), struct yaep_tree_node **root, int *ambiguous_p);
void yaep_free_grammar (struct grammar *grammar);
void yaep_free_tree (struct yaep_tree_node *root, void (*parse_free) (void *), void (*termcb) (struct yaep_term *term));
}
#ifndef INLEN
#define INLEN 4
#endif
#ifndef WIDEN
#define WIDEN 300
#endif
#ifndef LONGLEN
#define LONGLEN 301
#endif

/* ---- the two sides under one face ---- */
struct CSide
{
  struct grammar *g;
  CSide () { g = yaep_create_grammar (); }
  ~CSide () { if (g != NULL) yaep_free_grammar (g); }
  int error_code () { return yaep_error_code (g); }
  const char *error_message () { return yaep_error_message (g); }
  int read_grammar (int s, const char *(*rt) (int *), const char *(*rr) (const char ***, const char **, int *, int **)) { return yaep_read_grammar (g, s, rt, rr); }
  int parse_grammar (int s, const char *d) { return yaep_parse_grammar (g, s, d); }
  int set_lookahead_level (int v) { return yaep_set_lookahead_level (g, v); }
  int set_debug_level (int v) { return yaep_set_debug_level (g, v); }
  int set_one_parse_flag (int v) { return yaep_set_one_parse_flag (g, v); }
  int set_cost_flag (int v) { return yaep_set_cost_flag (g, v); }
  int set_error_recovery_flag (int v) { return yaep_set_error_recovery_flag (g, v); }
  int set_recovery_match (int v) { return yaep_set_recovery_match (g, v); }
  int parse (int (*rt) (void **), void (*se) (int, void *, int, void *, int, void *), void *(*pa) (int), void (*pf) (void *), struct yaep_tree_node **root, int *amb)
  { return yaep_parse (g, rt, se, pa, pf, root, amb); }
  static void free_tree (struct yaep_tree_node *root, void (*pf) (void *), void (*tc) (struct yaep_term *)) { yaep_free_tree (root, pf, tc); }
};
struct XSide
{
  yaep y;
  int error_code () { return y.error_code (); }
  const char *error_message () { return y.error_message (); }
  int read_grammar (int s, const char *(*rt) (int *), const char *(*rr) (const char ***, const char **, int *, int **)) { return y.read_grammar (s, rt, rr); }
  int parse_grammar (int s, const char *d) { return y.parse_grammar (s, d); }
  int set_lookahead_level (int v) { return y.set_lookahead_level (v); }
  int set_debug_level (int v) { return y.set_debug_level (v); }
  int set_one_parse_flag (int v) { return y.set_one_parse_flag (v); }
  int set_cost_flag (int v) { return y.set_cost_flag (v); }
  int set_error_recovery_flag (int v) { return y.set_error_recovery_flag (v); }
  int set_recovery_match (int v) { return y.set_recovery_match (v); }
  int parse (int (*rt) (void **), void (*se) (int, void *, int, void *, int, void *), void *(*pa) (int), void (*pf) (void *), struct yaep_tree_node **root, int *amb)
  { return y.parse (rt, se, pa, pf, root, amb); }
  static void free_tree (struct yaep_tree_node *root, void (*pf) (void *), void (*tc) (struct yaep_term *)) { yaep::free_tree (root, pf, tc); }
};

/* ---- callbacks and the rendering of results ---- */
static std::string out;
static void put (const char *fmt, long a = 0, long b = 0, long c = 0) { char buf[256]; snprintf (buf, sizeof buf, fmt, a, b, c); out += buf; }
static std::vector<int> toks; static size_t tpos; static char attrs[1024];
static int rd (void **a) { if (tpos < toks.size ()) { *a = &attrs[tpos % 1024]; return toks[tpos++]; } *a = NULL; return -1; }
static long attr_ix (void *a) { return a == NULL ? -1 : (long) ((char *) a - attrs); }
static int zero_cost_recovery;   /* F38 (known finding, C12): after a recovery that ignored no token make_parse indexes toks[] by parser-list position; attributes are then not compared */
static void se (int e, void *ea, int i, void *ia, int r, void *ra)
{ if (i == r) zero_cost_recovery = 1; put ("[err %ld/%ld", e, attr_ix (ea)); put (" %ld/%ld", i, attr_ix (ia)); put (" %ld/%ld]", r, attr_ix (ra)); }
static long live, n_alloc, n_free, n_termcb, bad_free; static std::map<void *, int> blocks;
static void *pa (int n) { void *p = malloc (n > 0 ? n : 1); memset (p, 0x5a, n > 0 ? n : 1); blocks[p] = 1; live++; n_alloc++; return p; }
static void pf (void *p) { if (p == NULL || blocks.find (p) == blocks.end () || blocks[p] != 1) { bad_free++; return; } blocks[p] = 0; live--; n_free++; free (p); }
static void tcb (struct yaep_term *t) { (void) t; n_termcb++; }
static void render (struct yaep_tree_node *n, std::map<struct yaep_tree_node *, int> &seen, int depth)
{
  if (n == NULL) { out += "NULL"; return; }
  if (depth > 60) { out += "..."; return; }
  if (seen.count (n)) { put ("@%ld", seen[n]); return; }
  int id = (int) seen.size (); seen[n] = id;
  switch (n->type)
    {
    case YAEP_NIL: put ("#%ld:nil", id); break;
    case YAEP_ERROR: put ("#%ld:error", id); break;
    case YAEP_TERM: put ("#%ld:t(%ld,%ld)", id, n->val.term.code, zero_cost_recovery ? -7 : attr_ix (n->val.term.attr)); break;
    case YAEP_ANODE:
      put ("#%ld:", id); out += n->val.anode.name; put ("$%ld(", n->val.anode.cost);
      for (int i = 0; n->val.anode.children[i] != NULL; i++) { if (i) out += ","; render (n->val.anode.children[i], seen, depth + 1); }
      out += ")"; break;
    case YAEP_ALT:
      put ("#%ld:alt{", id); render (n->val.alt.node, seen, depth + 1); out += "|"; render (n->val.alt.next, seen, depth + 1); out += "}"; break;
    default: put ("#%ld:type%ld", id, n->type);
    }
}

/* ---- scenarios ---- */
struct conf { int la, one, cost, rec, match, own; };
template <class S> static void configure (S &s, const conf &c)
{
  put ("set(%ld", s.set_lookahead_level (c.la)); put (",%ld", s.set_one_parse_flag (c.one)); put (",%ld", s.set_cost_flag (c.cost));
  put (",%ld", s.set_error_recovery_flag (c.rec)); put (",%ld)", s.set_recovery_match (c.match));
}
template <class S> static void one_parse (S &s, const conf &c, const std::vector<int> &in)
{
  struct yaep_tree_node *root = (struct yaep_tree_node *) attrs; int amb = 77;
  toks = in; tpos = 0; zero_cost_recovery = 0; blocks.clear (); live = n_alloc = n_free = n_termcb = bad_free = 0;
  int rc = c.own ? s.parse (rd, se, pa, pf, &root, &amb) : s.parse (rd, se, NULL, NULL, &root, &amb);
  put (" parse=%ld ec=%ld amb=%ld ", rc, s.error_code (), rc == 0 ? (amb != 0) : -1); if (rc != 0) { out += s.error_message (); }
  std::map<struct yaep_tree_node *, int> seen; render (root, seen, 0);
  put (" alloc=%ld", n_alloc); put (" freed-during=%ld bad=%ld", n_free, bad_free);
  if (root != NULL) { S::free_tree (root, c.own ? pf : NULL, tcb); }
  put (" termcb=%ld left=%ld bad=%ld;", n_termcb, live, bad_free);
  for (std::map<void *, int>::iterator it = blocks.begin (); it != blocks.end (); ++it) if (it->second == 1) free (it->first);
}
template <class S> static std::string with_description (const char *d, int strict, const conf &c, const std::vector<std::vector<int> > &inputs)
{
  out.clear ();
  { S s; put ("new ec=%ld msg=", s.error_code ()); out += s.error_message (); configure (s, c);
    int rc = s.parse_grammar (strict, d); put (" def=%ld ec=%ld ", rc, s.error_code ()); out += s.error_message ();
    for (size_t i = 0; i < inputs.size (); i++) one_parse (s, c, inputs[i]); }
  return out;
}
/* grammars through callbacks */
struct cbrule { const char *lhs; const char *rhs[4]; const char *anode; int cost; int tr[4]; };
static const char *const *cb_terms; static const int *cb_codes; static const cbrule *cb_rules; static int cb_nt, cb_nr, cb_it, cb_ir;
static const char *cb_rt (int *code) { if (cb_it < cb_nt) { *code = cb_codes[cb_it]; return cb_terms[cb_it++]; } return NULL; }
static const char *cb_rr (const char ***rhs, const char **an, int *cost, int **tr)
{ if (cb_ir >= cb_nr) return NULL; const cbrule *r = &cb_rules[cb_ir++]; *rhs = (const char **) r->rhs; *an = r->anode; *cost = r->cost; *tr = (int *) r->tr; return r->lhs; }
template <class S> static std::string with_callbacks (int strict, const conf &c, const std::vector<std::vector<int> > &inputs)
{
  out.clear ();
  { S s; configure (s, c); cb_it = cb_ir = 0;
    int rc = s.read_grammar (strict, cb_rt, cb_rr); put (" def=%ld ec=%ld ", rc, s.error_code ()); out += s.error_message ();
    for (size_t i = 0; i < inputs.size (); i++) one_parse (s, c, inputs[i]); }
  return out;
}
/* histories over two objects of the same side: redefinition, failed definition, parses in between, non-LIFO release */
template <class S> static std::string history (int k, const conf &c)
{
  static const char *good1 = "TERM;\nS : 'a' S # s (0 1) | 'b' # 0 ;\n", *good2 = "S : S 'x' # l (0) | # e ;\n", *badd = "S : S | 'a' ;\n";
  std::vector<int> in1; in1.push_back ('a'); in1.push_back ('b'); std::vector<int> in2; in2.push_back ('x'); in2.push_back ('x');
  out.clear ();
  S *p = new S, *q = new S;
  configure (*p, c);
  put (" d=%ld", p->parse_grammar (1, k & 1 ? good1 : good2)); one_parse (*p, c, k & 1 ? in1 : in2);
  put (" d=%ld", q->parse_grammar (1, k & 2 ? badd : good1)); put (" ec=%ld ", q->error_code ()); out += q->error_message (); one_parse (*q, c, in1);
  one_parse (*p, c, k & 1 ? in1 : in2);
  put (" d=%ld", p->parse_grammar (0, k & 4 ? good2 : "S : @ ;")); put (" ec=%ld ", p->error_code ()); out += p->error_message (); one_parse (*p, c, in2);
  put (" d=%ld", q->parse_grammar (1, good2)); one_parse (*q, c, in2);
  if (k & 8) { delete p; one_parse (*q, c, in2); delete q; } else { delete q; one_parse (*p, c, in2); delete p; }
  return out;
}

/* grammar shapes that make the containers grow: n alternatives / a right-hand side of n symbols / names of n characters; the same object is redefined */
static std::string wide_text; static std::vector<int> wide_in;
static void wide_build (int shape, int n)
{
  char b[64]; wide_text.clear (); wide_in.clear ();
  if (shape == 0)
    { wide_text = "TERM"; for (int i = 0; i < n; i++) { snprintf (b, sizeof b, " t%d=%d", i, 1000 + i); wide_text += b; } wide_text += ";\nS :";
      for (int i = 0; i < n; i++) { snprintf (b, sizeof b, "%s t%d # n%d (0)\n", i ? " |" : "", i, i % 7); wide_text += b; } wide_text += " ;\n"; wide_in.push_back (1000 + n - 1); }
  else if (shape == 1)
    { wide_text = "S :"; for (int i = 0; i < n; i++) wide_text += " 'a'"; snprintf (b, sizeof b, " 'b' # node (0 %d) ;\n", n); wide_text += b;
      for (int i = 0; i < n; i++) wide_in.push_back ('a'); wide_in.push_back ('b'); }
  else
    { std::string x (n, 'x'), y (n, 'Y'); wide_text = "TERM " + x + "=7;\n" + y + " : " + x + " # 0 | " + y + " " + x + " # l (0 1) ;\n"; wide_in.assign (3, 7); }
}
template <class S> static std::string wide (int shape, int n, const conf &c)
{
  std::string res;
  { S s; out.clear (); configure (s, c);
    for (int step = 0; step < 4; step++)
      { int sh = step == 0 || step == 3 ? shape : (shape + step) % 3, nn = step == 1 ? 3 : n;
        wide_build (sh, nn); std::string keep = out; int rc = s.parse_grammar (1, wide_text.c_str ()); out = keep; put (" def=%ld ec=%ld ", rc, s.error_code ()); out += s.error_message ();
        one_parse (s, c, wide_in); wide_in.push_back ('a'); one_parse (s, c, wide_in); }
    res = out; }
  return res;
}
static long cases, bad;
static void compare (const char *family, const std::string &a, const std::string &b, const char *what)
{
  cases++;
  if (a != b) { bad++; if (bad <= 4) fprintf (stderr, "DIFF %s [%s]\n  C  : %.1500s\n  C++: %.1500s\n", family, what, a.c_str (), b.c_str ()); }
}
static void gen_inputs (const int *alpha, int na, int maxlen, std::vector<std::vector<int> > &res)
{
  std::vector<int> cur; res.push_back (cur);
  for (size_t done = 0; done < res.size (); done++)
    if ((int) res[done].size () < maxlen) for (int i = 0; i < na; i++) { cur = res[done]; cur.push_back (alpha[i]); res.push_back (cur); }
}

int main (void)
{
  static const char *expr = "TERM NUM=300;\nE : T # 0 | E '+' T # plus (0 2) ;\nT : F # 0 | T '*' F # mult (0 2) ;\nF : NUM # 0 | '(' E ')' # 0 | error # err ;\n";
  static const char *amb = "S : S '+' S # p 2 (0 2) | S '*' S # m 1 (0 2) | 'a' # 0 | 'a' # leaf 3 (0) | ;\n";
  static const char *opt = "TERM A=1 B C;\nS : X Y Z # s (0 1 2) ;\nX : A # 0 | # - ;\nY : B # y 0 (0) | ;\nZ : C C # z (1 0) | X # 0 ;\n";
  static const char *bad_descr[] = {
    "S : ", "S : 'a", "TERM A=1 A=2;\nS : A;\n", "TERM A; TERM;\nS : A # x (5);\n", "S : 'a' # 0 1;\n", "S : 'a' # x (0 0);\n", "TERM error;\nS : error;\n",
    "S : 'a' ;\nT : S ;\n", "S : T ;\nT : S 'a';\n", "S : S ;\n", "TERM $eof;\nS : $eof;\n", "TERM A=-3;\nS : A;\n", "S : 'a' # n -1 (0);\n", "S : 'a' # 9;\n", "TERM A=99999999999;\nS : A;\n",
    "\n\n  S : 'a' @ ;\n", "/* unterminated", "S S : 'a';\n", "TERM A B; A : B;\n", "TERM abcdefghijklmnopqrstuvwxyzabcdefghijklmnopqrstuvwxyzabcdefghijklmnopqrstuvwxyzabcdefghijklmnopqrstuvwxyzabcdefghijklmnopqrstuvwxyzabcdefghijklmnopqrstuvwxyzabcdefghijklmnopqrstuvwxyzabcdefghijklmnopqrstuvwxyzabcdefghijklmnopqrstuvwxyz=1 abcdefghijklmnopqrstuvwxyzabcdefghijklmnopqrstuvwxyzabcdefghijklmnopqrstuvwxyzabcdefghijklmnopqrstuvwxyzabcdefghijklmnopqrstuvwxyzabcdefghijklmnopqrstuvwxyzabcdefghijklmnopqrstuvwxyzabcdefghijklmnopqrstuvwxyzabcdefghijklmnopqrstuvwxyz=2;\nS : 'a';\n", "" };
  static const int a_expr[] = {300, '+', '*', '(', ')', 7}, a_amb[] = {'a', '+', '*'}, a_opt[] = {1, 256, 257};
  std::vector<std::vector<int> > in_expr, in_amb, in_opt, in_one;
  gen_inputs (a_expr, 6, INLEN, in_expr); gen_inputs (a_amb, 3, INLEN + 1, in_amb); gen_inputs (a_opt, 3, INLEN, in_opt);
  { std::vector<int> v; v.push_back ('a'); in_one.push_back (v); }
  long c0;
  /* 1. configurations x short inputs on three grammars */
  c0 = cases;
  for (int la = -1; la <= 3; la++) for (int one = 0; one <= 1; one++) for (int cost = 0; cost <= 1; cost++) for (int rec = 0; rec <= 1; rec++) for (int own = 0; own <= 1; own++)
    {
      conf c = {la, one, cost, rec, la == 0 ? 1 : 3, own};
      char what[80]; snprintf (what, sizeof what, "la=%d one=%d cost=%d rec=%d own=%d", la, one, cost, rec, own);
      /* F38 (known finding): with recovery on and all parses requested, make_parse reads term_node_array beyond the token count after a recovery
         that ignored no token (ASan stops the program); that combination is not run in any family */
      if (rec == 1 && (one == 0 || cost == 1)) continue;   /* the cost flag asks for all parses internally */
      compare ("expr", with_description<CSide> (expr, 1, c, in_expr), with_description<XSide> (expr, 1, c, in_expr), what);
      compare ("amb", with_description<CSide> (amb, 1, c, in_amb), with_description<XSide> (amb, 1, c, in_amb), what);
      compare ("opt", with_description<CSide> (opt, 0, c, in_opt), with_description<XSide> (opt, 0, c, in_opt), what);
    }
  long n1 = cases - c0; long b1 = bad;
  printf ("CASE cxx_parse %ld %s three grammars x 100 configurations, every input of <= %d tokens (%zu + %zu + %zu inputs per configuration): C and C++ agree on codes, messages, callbacks, flags, trees and releases\n",
          n1, b1 ? "FAIL" : "OK", INLEN, in_expr.size (), in_amb.size (), in_opt.size ());
  /* 2. rejected and odd descriptions: codes and messages */
  c0 = cases; long b0 = bad;
  for (size_t i = 0; i < sizeof bad_descr / sizeof *bad_descr; i++) for (int strict = 0; strict <= 1; strict++)
    { conf c = {1, 1, 0, 1, 3, 0}; compare ("descr", with_description<CSide> (bad_descr[i], strict, c, in_one), with_description<XSide> (bad_descr[i], strict, c, in_one), bad_descr[i]); }
  printf ("CASE cxx_descriptions %ld %s rejected / odd descriptions, strict and not: same code and message, same refusal to parse\n", cases - c0, bad > b0 ? "FAIL" : "OK");
  /* 3. grammars through callbacks (accepted and rejected) */
  c0 = cases; b0 = bad;
  {
    static const char *t1[] = {"a", "b"}; static const int k1[] = {'a', 'b'}, k1dup[] = {'a', 'a'}, k1neg[] = {'a', -2};
    static const cbrule r_ok[] = {{"S", {"a", "S", "b", NULL}, "n", 2, {0, 1, -1, -1}}, {"S", {NULL}, NULL, 0, {-1}}},
                        r_lhs[] = {{"a", {"b", NULL}, NULL, 0, {0, -1}}}, r_tr[] = {{"S", {"a", "b", NULL}, NULL, 0, {0, 1, -1}}},
                        r_num[] = {{"S", {"a", NULL}, "n", 0, {3, -1}}}, r_rep[] = {{"S", {"a", "b", NULL}, "n", 0, {1, 1, -1}}},
                        r_unacc[] = {{"S", {"a", NULL}, NULL, 0, {0, -1}}, {"T", {"b", NULL}, NULL, 0, {0, -1}}}, r_der[] = {{"S", {"a", NULL}, NULL, 0, {0, -1}}, {"S", {"T", NULL}, NULL, 0, {0, -1}}, {"T", {"T", "a", NULL}, NULL, 0, {0, -1}}};
    struct { const int *codes; const cbrule *rules; int nr; } fam[] = {{k1, r_ok, 2}, {k1dup, r_ok, 2}, {k1neg, r_ok, 2}, {k1, r_lhs, 1}, {k1, r_tr, 1}, {k1, r_num, 1}, {k1, r_rep, 1}, {k1, r_unacc, 2}, {k1, r_der, 3}, {k1, r_ok, 0}};
    static const int a_cb[] = {'a', 'b'}; std::vector<std::vector<int> > in_cb; gen_inputs (a_cb, 2, INLEN, in_cb);
    for (size_t f = 0; f < sizeof fam / sizeof *fam; f++) for (int strict = 0; strict <= 1; strict++) for (int one = 0; one <= 1; one++)
      { conf c = {2, one, 1, 0, 2, 1}; cb_terms = t1; cb_codes = fam[f].codes; cb_nt = 2; cb_rules = fam[f].rules; cb_nr = fam[f].nr;
        compare ("callbacks", with_callbacks<CSide> (strict, c, in_cb), with_callbacks<XSide> (strict, c, in_cb), "callback grammar"); }
  }
  printf ("CASE cxx_callbacks %ld %s grammars read through callbacks (one accepted, nine with one defect each), strict and not\n", cases - c0, bad > b0 ? "FAIL" : "OK");
  /* 4. histories over two objects */
  c0 = cases; b0 = bad;
  for (int k = 0; k < 16; k++) for (int la = 0; la <= 2; la++) for (int own = 0; own <= 1; own++)
    { conf c = {la, la != 1, la == 2, la == 0, 3, own}; compare ("history", history<CSide> (k, c), history<XSide> (k, c), "history"); }
  printf ("CASE cxx_histories %ld %s 16 histories over two objects (definition, parse, failed and successful redefinition, release in either order) x 6 configurations\n", cases - c0, bad > b0 ? "FAIL" : "OK");
  /* 5. long inputs: the containers grow (hash-table expansion, segment and vlo growth) on both sides */
  c0 = cases; b0 = bad;
  for (int la = 0; la <= 2; la++) for (int variant = 0; variant < 3; variant++)
    {
      std::vector<std::vector<int> > in (1);
      for (int i = 0; i < LONGLEN; i++) in[0].push_back (i % 2 == 0 ? 300 : (i % 7 == 1 ? '*' : '+'));
      if (variant == 1) { in[0][LONGLEN / 2] = ')'; in[0][LONGLEN / 3] = '+'; }      /* two syntax errors */
      if (variant == 2) in[0].push_back ('+');                                         /* error at the end of input */
      conf c = {la, 1, 0, 1, 3, variant == 2};
      compare ("long", with_description<CSide> (expr, 1, c, in), with_description<XSide> (expr, 1, c, in), "long input");
    }
  printf ("CASE cxx_long %ld %s inputs of %d tokens (sentence, two errors inside, error at the end) x 3 lookahead levels\n", cases - c0, bad > b0 ? "FAIL" : "OK", LONGLEN);
  /* 6. grammar shapes around the growth points of the containers, with redefinition of the same object */
  c0 = cases; b0 = bad;
  { static const int N[] = {1, 2, 31, 63, 64, 65, 93, 97, 128, 129, 141, 147, 200, 257, WIDEN, 688, 700};
    for (size_t i = 0; i < sizeof N / sizeof *N; i++) for (int shape = 0; shape < 3; shape++) for (int la = 0; la <= 2; la += 2)
      { conf c = {la, 1, 0, 0, 3, la == 2}; char what[64]; snprintf (what, sizeof what, "shape %d n=%d la=%d", shape, N[i], la);
        compare ("wide", wide<CSide> (shape, N[i], c), wide<XSide> (shape, N[i], c), what); } }
  printf ("CASE cxx_wide %ld %s n alternatives / right-hand sides of n symbols / names of n characters (n up to %d, around the growth points of the containers), each object redefined three times\n", cases - c0, bad > b0 ? "FAIL" : "OK", WIDEN > 700 ? WIDEN : 700);
  return bad != 0;
}
