/* N(k) stand-in for C04 on the REAL library: for every description of five small ambiguous families with abstract-node costs from
   {0..CMAX} in every combination, every input of the family, every lookahead level and both one_parse values:
     T0 = the set of trees denoted by the all-parses result WITHOUT cost flag (one alternative chosen at every ALT node, per occurrence),
          each with its total cost = sum of the rule costs of its abstract nodes;  m = the minimum over T0;
     with the cost flag and all parses: the denoted set is exactly { t in T0 : cost (t) == m };
     with the cost flag and one parse:  the result has no ALT node and is one of them;
     with the cost flag every abstract node's cost field == its own rule cost + the cost fields of its children subtrees, the root's is m;
     without the cost flag the field is the rule's own cost.
   The oracle is the enumeration itself (no knowledge of how yaep prunes). */
#include <stdio.h>
#include <stdlib.h>
#include <string.h>
#include "yaep.h"
#ifndef UNINIT_ONLY
#define UNINIT_ONLY 0
#endif
#ifndef CMAX
#define CMAX 2
#endif
#define MAXT 4096
static char text[2048];
static const int *toks; static int ntok, pos, nerr;
static int rd (void **a) { *a = NULL; return pos < ntok ? toks[pos++] : -1; }
static void er (int a, void *b, int c, void *d, int e, void *f) { (void) a; (void) b; (void) c; (void) d; (void) e; (void) f; nerr++; }
/* own cost of a rule by the name of its abstract node (names are unique per rule in the families) */
static struct { const char *name; int cost; } NC[16]; static int nnc;
static int own_cost (const char *name) { int i; for (i = 0; i < nnc; i++) if (strcmp (NC[i].name, name) == 0) return NC[i].cost; return -1000000; }
struct tl { int n; char **s; int *c; };
static void tl_add (struct tl *l, const char *s, int c) { if (l->n >= MAXT) return; l->s = realloc (l->s, (l->n + 1) * sizeof (char *)); l->c = realloc (l->c, (l->n + 1) * sizeof (int)); l->s[l->n] = strdup (s); l->c[l->n++] = c; }
static void tl_free (struct tl *l) { int i; for (i = 0; i < l->n; i++) free (l->s[i]); free (l->s); free (l->c); l->n = 0; l->s = NULL; l->c = NULL; }
static int fields_ok, has_alt;
/* cost field of a subtree as the property words it: an ALT node stands for alternatives of equal field */
static int field_of (struct yaep_tree_node *n) { if (n->type == YAEP_ALT) return field_of (n->val.alt.node); return n->type == YAEP_ANODE ? n->val.anode.cost : 0; }
/* all trees denoted by N; TOTAL: the fields are subtree totals (cost flag) and are checked; otherwise they must be the rules' own costs */
static void denot (struct yaep_tree_node *n, struct tl *out, int total)
{
  char buf[1024]; int i, j;
  switch (n->type) {
  case YAEP_NIL: tl_add (out, "nil", 0); break; case YAEP_ERROR: tl_add (out, "err", 0); break;
  case YAEP_TERM: sprintf (buf, "t%d", n->val.term.code); tl_add (out, buf, 0); break;
  case YAEP_ALT: { struct yaep_tree_node *a; int f0 = field_of (n); has_alt = 1; for (a = n; a != NULL; a = a->val.alt.next) { if (total && field_of (a->val.alt.node) != f0) fields_ok = 0; denot (a->val.alt.node, out, total); } break; }
  case YAEP_ANODE:
    { struct tl cur = {0, NULL, NULL}, nxt; struct yaep_tree_node **c; int own = own_cost (n->val.anode.name), sum = own;
      sprintf (buf, "%s(", n->val.anode.name); tl_add (&cur, buf, own);
      for (c = n->val.anode.children; *c != NULL; c++)
        { struct tl ch = {0, NULL, NULL}; denot (*c, &ch, total); sum += field_of (*c); nxt.n = 0; nxt.s = NULL; nxt.c = NULL;
          for (i = 0; i < cur.n; i++) for (j = 0; j < ch.n; j++) { snprintf (buf, sizeof buf, "%s%s ", cur.s[i], ch.s[j]); tl_add (&nxt, buf, cur.c[i] + ch.c[j]); }
          tl_free (&cur); tl_free (&ch); cur = nxt; }
      for (i = 0; i < cur.n; i++) { snprintf (buf, sizeof buf, "%s)", cur.s[i]); tl_add (out, buf, cur.c[i]); }
      tl_free (&cur);
      if (total ? n->val.anode.cost != sum : n->val.anode.cost != own) fields_ok = 0;
      break; }
  default: tl_add (out, "?", 0); }
}
static int in_list (struct tl *l, const char *s) { int i; for (i = 0; i < l->n; i++) if (strcmp (l->s[i], s) == 0) return 1; return 0; }
static long cases, bad; static int shown;
static void fail (const char *what, int la, int one) { bad++; if (shown++ < 4) fprintf (stderr, "COST VIOLATION (%s) lookahead=%d one_parse=%d input length %d for:\n%s", what, la, one, ntok, text); }
/* caller-supplied parse_alloc WITHOUT parse_free (a documented configuration): the blocks are collected here and released after the case */
struct blk { struct blk *next; }; static struct blk *blks;
static void *pa (int n) { struct blk *b = malloc (sizeof (struct blk) + 8 + (n > 0 ? n : 1)); b->next = blks; blks = b; memset ((char *) b + 16, 0x5a, n > 0 ? n : 1); return (char *) b + 16; }
static void pa_release (void) { while (blks != NULL) { struct blk *b = blks; blks = b->next; free (b); } }
static void one_case (void)
{
  struct grammar *g = yaep_create_grammar (); struct yaep_tree_node *r0 = NULL, *r = NULL; struct tl T0 = {0, NULL, NULL}, T = {0, NULL, NULL}; int amb, rc, i, m, m2, la, one, nmin;
  if (yaep_parse_grammar (g, 0, text) != 0) { fprintf (stderr, "family description rejected: %s\n%s", yaep_error_message (g), text); bad++; yaep_free_grammar (g); return; }
  yaep_set_one_parse_flag (g, 0); yaep_set_cost_flag (g, 0); pos = 0; nerr = 0;
  rc = yaep_parse (g, rd, er, NULL, NULL, &r0, &amb);
  if (rc != 0 || nerr != 0 || r0 == NULL) { fail ("the input of the family is not parsed", 1, 0); yaep_free_grammar (g); return; }
  fields_ok = 1; denot (r0, &T0, 0); if (!fields_ok) fail ("without the cost flag a cost field is not the rule's own cost", 1, 0);
  for (m = T0.c[0], i = 1; i < T0.n; i++) if (T0.c[i] < m) m = T0.c[i];
  for (la = 0; la <= 2; la++) for (m2 = 0; m2 < 4; m2++)
    {
      int own = m2 >> 1; one = m2 & 1;
      yaep_set_lookahead_level (g, la); yaep_set_one_parse_flag (g, one); yaep_set_cost_flag (g, 1); pos = 0; nerr = 0; r = NULL; cases++;
      rc = own ? yaep_parse (g, rd, er, pa, NULL, &r, &amb) : yaep_parse (g, rd, er, NULL, NULL, &r, &amb);
      if (rc != 0 || nerr != 0 || r == NULL) { fail ("no result with the cost flag", la, one); pa_release (); continue; }
      fields_ok = 1; has_alt = 0; T.n = 0; denot (r, &T, 1);
      if (!fields_ok) fail ("a cost field is not own cost + cost fields of the children", la, one);
      if (field_of (r) != m) fail ("the root's cost is not the minimum over all translations", la, one);
      for (i = 0; i < T.n; i++) if (T.c[i] != m || !in_list (&T0, T.s[i])) { fail ("the result denotes a translation that is not minimal (or not a translation at all)", la, one); break; }
      if (one) { if (has_alt || T.n != 1) fail ("one parse requested: more than one translation denoted", la, one); }
      else { for (nmin = 0, i = 0; i < T0.n; i++) if (T0.c[i] == m && !in_list (&T, T0.s[i])) { fail ("a minimal translation is missing from the all-parses result", la, one); break; } }
      tl_free (&T); if (own) pa_release (); else yaep_free_tree (r, NULL, NULL);
    }
  tl_free (&T0); yaep_free_tree (r0, NULL, NULL); yaep_free_grammar (g);
}
static void nc (const char *n, int c) { NC[nnc].name = n; NC[nnc++].cost = c; }
int main (void)
{
  static const int in[] = {'a', 'a', 'a', 'a'}; int c1, c2, c3, c4, k, n;
  toks = in;
  for (c1 = 0; c1 <= CMAX; c1++) for (c2 = 0; c2 <= CMAX; c2++) for (c3 = 0; c3 <= CMAX; c3++)
    {
      /* F1: three alternatives for one token */
      nnc = 0; nc ("x", c1); nc ("y", c2); nc ("z", c3);
      sprintf (text, "S : A # 0 | B # 0 | C # 0 ;\nA : 'a' # x %d (0) ;\nB : 'a' # y %d (0) ;\nC : 'a' # z %d (0) ;\n", c1, c2, c3); ntok = 1; one_case ();
      /* F2: the ambiguous symbol twice under a common node (shared sub-DAGs) */
      nnc = 0; nc ("x", c1); nc ("y", c2); nc ("top", c3);
      sprintf (text, "S : P P # top %d (0 1) ;\nP : A # 0 | B # 0 ;\nA : 'a' # x %d (0) ;\nB : 'a' # y %d (0) ;\n", c3, c1, c2); ntok = 2; one_case ();
      /* F3: two binary rules of different cost and a leaf rule: all bracketings x all rule choices */
      nnc = 0; nc ("n1", c1); nc ("n2", c2); nc ("l", c3);
      sprintf (text, "S : S S # n1 %d (0 1) | S S # n2 %d (0 1) | 'a' # l %d (0) ;\n", c1, c2, c3);
      for (k = 1; k <= 4; k++) { ntok = k; one_case (); }
      /* F4: alternatives that differ in which child they keep, one of them dropping a costly child */
      nnc = 0; nc ("s", c1); nc ("t", c2); nc ("b", c3);
      sprintf (text, "S : A B # s %d (0 1) | A B # t %d (1) ;\nA : 'a' # 0 ;\nB : 'a' # b %d (0) | 'a' # - ;\n", c1, c2, c3); ntok = 2; one_case ();
      for (c4 = 0; c4 <= CMAX; c4++)
        { /* F5: ambiguity two levels down, a cheap top with a dear bottom against a dear top with a cheap bottom */
          nnc = 0; nc ("p", c1); nc ("q", c2); nc ("u", c3); nc ("v", c4);
          sprintf (text, "S : U # p %d (0) | V # q %d (0) ;\nU : 'a' 'a' # u %d (0 1) ;\nV : 'a' W # v %d (0 1) ;\nW : 'a' # 0 | 'a' # - ;\n", c1, c2, c3, c4); ntok = 2; one_case (); }
    }
  n = 0; (void) n;
  {
    /* F6 (reported by an independent sub-agent, third round): an ALT list shared between an abstract node and its copy (copy_anode copies the children filled in so far).
       Own CASE line: on the pinned tree the second parent sees the list already cut by the first visit (known finding F39). */
    static const int in6[] = {'b', 'b', 'b', 'd'}; long cases0 = cases, bad0 = bad; int shown0 = shown;
    toks = in6;
    for (c1 = 0; c1 <= CMAX; c1++) for (c2 = 0; c2 <= CMAX; c2++) for (c3 = 0; c3 <= CMAX; c3++)
      {
        nnc = 0; nc ("top", 1); nc ("x", 0); nc ("y", 0); nc ("v", 0); nc ("w", 0); nc ("p", c1); nc ("q", c2); nc ("r", c3);
        sprintf (text, "S : B C D # top 1 (0 1 2) ;\nB : 'b' # x 0 (0) | 'b' 'b' # y 0 (0 1) ;\nC : 'b' # v 0 (0) | 'b' 'b' # w 0 (0 1) ;\nD : 'd' # p %d (0) | 'd' # q %d (0) | 'd' # r %d (0) ;\n", c1, c2, c3);
        ntok = 4; one_case ();
      }
    printf ("CASE shared_alt_list %ld %s S : B C D with B, C ambiguous over b^3 and three priced alternatives for D (costs 0..%d): both minimal splits of b^3 are denoted (all parses), fields add up\n",
            cases - cases0, bad > bad0 && !UNINIT_ONLY ? "FAIL" : "OK", CMAX);
    /* UNINIT_ONLY (the MemorySanitizer build, UB.uninit.trees): the family is run for its memory reads; its functional verdict (known finding F39) belongs to P.cost.native */
    cases = cases0; { long b6 = bad - bad0; bad = bad0; shown = shown0; toks = in; if (b6 && !UNINIT_ONLY) n = 1; }
  }
  printf ("CASE minimal_cost_translations %ld %s with the cost flag the result denotes exactly the minimal-cost translations (all parses) / one of them (one parse), cost fields add up, the root carries the minimum; "
          "without it the fields are the rules' own costs (five ambiguous families, costs 0..%d in every combination, inputs of <= 4 tokens, lookahead 0..2)\n", cases, bad ? "FAIL" : "OK", CMAX);
  return bad != 0 || n != 0;
}
