/* N(k) stand-in for C14 (objects independent of each other and of their past): every history of at most LEN API operations over two
   grammar slots on the REAL library (ASan/UBSan/LeakSanitizer), each call compared with what a fresh object with the same definition
   and settings returns (the model below tracks only: exists, which definition, lookahead level).  Operations: create, define good
   grammar A (description text), define good grammar B (callbacks), define bad grammar (loop), set lookahead 0/2, set the cost flag, ask for all parses, parse a sentence,
   parse a non-sentence, parse a token that is not a terminal, free.  At the end everything is freed (leaks are reported at exit). */
#include <stdio.h>
#include <stdlib.h>
#include <string.h>
#include "yaep.h"
#ifndef LEN
#define LEN 5
#endif
enum { OP_CREATE, OP_DEF_A, OP_DEF_B, OP_DEF_BAD, OP_LA0, OP_LA2, OP_COST1, OP_ALL, OP_SENT, OP_NONSENT, OP_BADTOK, OP_FREE, NOPS };
static const char *opname[] = {"create", "defA", "defB", "defBAD", "la0", "la2", "cost1", "allparses", "sent", "nonsent", "badtok", "free"};
struct slot { struct grammar *g; int def; int la; int cost; int one; int lasterr; };      /* def: 0 undefined, 1 A, 2 B */
static struct slot S[2];
static const int *toks; static int ntok, pos, nerr;
static int rd (void **a) { *a = NULL; return pos < ntok ? toks[pos++] : -1; }
static void er (int a, void *b, int c, void *d, int e, void *f) { (void) a; (void) b; (void) c; (void) d; (void) e; (void) f; nerr++; }
static int bk, brk; static const char *b_rhs1[] = {"x", "T", NULL}, *b_rhs2[] = {NULL}; static int b_tr[] = {-1};
static const char *b_rt (int *code) { if (bk == 0) { bk++; *code = 'x'; return "x"; } if (bk == 1) { bk++; *code = 'y'; return "y"; } return NULL; }
static const char *b_rr (const char ***rhs, const char **an, int *cost, int **tr)
{ *an = NULL; *cost = 0; *tr = b_tr; if (brk == 0) { brk++; *rhs = b_rhs1; return "T"; } if (brk == 1) { brk++; *rhs = b_rhs2; return "T"; } return NULL; }
static long cases, bad; static int hist[LEN], hslot[LEN], hn;
static void fail (const char *what)
{ int i; bad++; if (bad <= 5) { fprintf (stderr, "HISTORY"); for (i = 0; i < hn; i++) fprintf (stderr, " %s(%d)", opname[hist[i]], hslot[i]); fprintf (stderr, " : %s\n", what); } }
static int apply (int s, int op)
{
  struct slot *x = &S[s]; struct yaep_tree_node *root = NULL; int amb, rc; static const int sentA[] = {'a', 'a'}, nonA[] = {'b', 'a'}, sentB[] = {'x', 'x'}, nonB[] = {'x', 'y'}, badt[] = {1000};
  if ((op == OP_CREATE) != (x->g == NULL)) return 0;                       /* not applicable in this state */
  switch (op)
    {
    case OP_CREATE: x->g = yaep_create_grammar (); x->def = 0; x->la = 1; x->cost = 0; x->one = 1; x->lasterr = 0;
      if (x->g == NULL || yaep_error_code (x->g) != 0) fail ("create"); break;
    case OP_DEF_A: rc = yaep_parse_grammar (x->g, 1, "TERM;\nS : 'a' S | 'b' | ;\n"); if (rc != 0) fail ("good definition A rejected"); x->def = 1; break;
    case OP_DEF_B: bk = brk = 0; rc = yaep_read_grammar (x->g, 1, b_rt, b_rr); if (rc != 0) fail ("good definition B rejected"); x->def = 2; break;
    case OP_DEF_BAD: rc = yaep_parse_grammar (x->g, 1, "S : S | 'a' ;\n"); if (rc != YAEP_LOOP_NONTERM || yaep_error_code (x->g) != rc) fail ("bad definition not reported as a loop"); x->def = 0; x->lasterr = rc; break;
    case OP_LA0: case OP_LA2: rc = yaep_set_lookahead_level (x->g, op == OP_LA0 ? 0 : 2); if (rc != x->la) fail ("setter does not return the previous value"); x->la = op == OP_LA0 ? 0 : 2; break;
    case OP_COST1: rc = yaep_set_cost_flag (x->g, 1); if (rc != x->cost) fail ("cost setter does not return the previous value"); x->cost = 1; break;
    case OP_ALL: rc = yaep_set_one_parse_flag (x->g, 0); if (rc != x->one) fail ("one-parse setter does not return the previous value"); x->one = 0; break;
    case OP_SENT: case OP_NONSENT: case OP_BADTOK:
      toks = op == OP_BADTOK ? badt : x->def == 2 ? (op == OP_SENT ? sentB : nonB) : (op == OP_SENT ? sentA : nonA); ntok = op == OP_BADTOK ? 1 : 2; pos = 0; nerr = 0;
      rc = yaep_parse (x->g, rd, er, NULL, NULL, &root, &amb);
      if (x->def == 0) { if (rc != YAEP_UNDEFINED_OR_BAD_GRAMMAR || root != NULL) fail ("parse on an undefined object"); x->lasterr = rc; }
      else if (op == OP_BADTOK) { if (rc != YAEP_INVALID_TOKEN_CODE || root != NULL) fail ("invalid token code"); x->lasterr = rc; }
      else if (op == OP_SENT) { if (rc != 0 || root == NULL || nerr != 0) fail ("sentence"); }
      else { if (rc != 0 || nerr < 1) fail ("non-sentence: no syntax error reported"); }
      if (rc != 0 && yaep_error_code (x->g) != rc) fail ("yaep_error_code differs from the code returned");
      if (root != NULL) yaep_free_tree (root, NULL, NULL);
      /* a parse does not change the settings of the object */
      if (yaep_set_one_parse_flag (x->g, x->one) != x->one || yaep_set_cost_flag (x->g, x->cost) != x->cost || yaep_set_lookahead_level (x->g, x->la) != x->la) fail ("a parse changed the settings of the object");
      break;
    case OP_FREE: yaep_free_grammar (x->g); x->g = NULL; break;
    }
  return 1;
}
static void reset (void) { int s; for (s = 0; s < 2; s++) if (S[s].g != NULL) { yaep_free_grammar (S[s].g); S[s].g = NULL; } }
/* histories are replayed from scratch for each leaf (the library has file-scope state: a prefix cannot be shared) */
static int cur[LEN], curs[LEN];
static void run_history (int n) { int i; reset (); hn = 0; for (i = 0; i < n; i++) { hist[hn] = cur[i]; hslot[hn] = curs[i]; hn++; if (!apply (curs[i], cur[i])) { hn = -1; break; } } if (hn >= 0) cases++; reset (); }
static void enumerate (int depth, int n)
{
  int s, op;
  if (depth == n) { run_history (n); return; }
  for (s = 0; s < 2; s++) for (op = 0; op < NOPS; op++) { cur[depth] = op; curs[depth] = s; enumerate (depth + 1, n); }
}
int main (void)
{
  int n;
  for (n = 1; n <= LEN; n++) enumerate (0, n);
  printf ("CASE api_histories %ld %s every call in every applicable history of <= %d operations over two objects returns what a fresh object would (12 operations per object)\n", cases, bad ? "FAIL" : "OK", LEN);
  return bad != 0;
}
