/* C side of native/cxx_diff.cpp: the real yaep.c compiled as C.  The only change is that the three bison globals which
   libyaep and libyaep++ both export (yaep_yychar, yaep_yylval, yaep_yynerrs) get another name here so that both libraries
   can be linked into one program; every other global of yaep.c is static or part of the C API (static in the C++ build). */
#define yaep_yychar verif_c_yaep_yychar
#define yaep_yylval verif_c_yaep_yylval
#define yaep_yynerrs verif_c_yaep_yynerrs
#include "plain/yaep.c"
