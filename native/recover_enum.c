/* N(k) stand-in for C12 inside error recovery (no contract reaches error_recovery / build_pl): every input of <= RLEN tokens over the
   terminals of an expression grammar with an explicit `error' rule, recovery on, recovery_match 1..3, lookahead 0..2, on the REAL library
   under ASan/UBSan.  Checked: no memory error; every syntax_error call has 0 <= first ignored <= first recovered <= token count (these
   numbers index the token array inside build_pl: F36), an error token inside the input, strictly increasing error tokens, and attributes
   that belong to the reported indices (NULL for end of input); the parse returns 0.
   Case recover_one_parse: one parse requested, in-process.  Case recover_all_parses: all parses requested, every parse in a child
   process because the pinned tree has a known defect there (F38: after a recovery that ignored no token make_parse indexes
   term_node_array / toks by parser-list position); a child that dies is counted for that case only. */
#include <stdio.h>
#include <stdlib.h>
#include <string.h>
#include <unistd.h>
#include <sys/wait.h>
#include "yaep.h"
#ifndef RLEN
#define RLEN 4
#endif
static const int *toks; static int ntok, pos; static long bad, calls; static int last_err, shown;
static int rd (void **a) { *a = (void *) (long) (pos + 1000); return pos < ntok ? toks[pos++] : -1; }
static void *attr_of (int i) { return i >= ntok ? NULL : (void *) (long) (i + 1000); }
static void er (int a, void *b, int c, void *d, int e, void *f)
{
  int ok = 0 <= c && c <= e && e <= ntok && 0 <= a && a <= ntok && a > last_err && b == attr_of (a) && d == attr_of (c) && f == attr_of (e);
  calls++;
  if (!ok) { int i; bad++; if (shown++ < 5) { fprintf (stderr, "RECOVERY ARGUMENTS error token %d ignored from %d recovered at %d, %d tokens:", a, c, e, ntok); for (i = 0; i < ntok; i++) fprintf (stderr, " %d", toks[i]); fprintf (stderr, "\n"); } }
  last_err = a;
}
static const char *expr = "TERM NUM=300;\nE : T # 0 | E '+' T # plus (0 2) ;\nT : F # 0 | T '*' F # mult (0 2) ;\nF : NUM # 0 | '(' E ')' # 0 | error # err ;\n";
static int one (int la, int m, int one_parse, const int *in, int len)
{
  struct grammar *g = yaep_create_grammar (); struct yaep_tree_node *root = NULL; int amb, rc; long bad0 = bad;
  yaep_set_lookahead_level (g, la); yaep_set_recovery_match (g, m); yaep_set_one_parse_flag (g, one_parse);
  if (yaep_parse_grammar (g, 1, expr) != 0) { bad++; yaep_free_grammar (g); return 1; }
  toks = in; ntok = len; pos = 0; last_err = -1;
  rc = yaep_parse (g, rd, er, NULL, NULL, &root, &amb);
  if (rc != 0 || root == NULL) bad++;
  if (root != NULL) yaep_free_tree (root, NULL, NULL);
  yaep_free_grammar (g);
  return bad != bad0;
}
int main (void)
{
  static const int alpha[] = {300, '+', '*', '(', ')'}; int in[RLEN + 1], la, m, len, k, i, total; long n1 = 0, n2 = 0, died = 0, bad1;
  for (la = 0; la <= 2; la++) for (m = 1; m <= 3; m++) for (len = 0; len <= RLEN; len++)
    { for (total = 1, i = 0; i < len; i++) total *= 5;
      for (k = 0; k < total; k++) { int kk = k; for (i = 0; i < len; i++) { in[i] = alpha[kk % 5]; kk /= 5; } one (la, m, 1, in, len); n1++; } }
  bad1 = bad;
  printf ("CASE recover_one_parse %ld %s every input of <= %d tokens, recovery_match 1..3, lookahead 0..2 (%ld syntax_error calls): arguments index the input consistently, no memory error\n", n1, bad1 ? "FAIL" : "OK", RLEN, calls);
  fflush (stdout); fflush (stderr);
  for (la = 0; la <= 2; la += 2) for (m = 1; m <= 3; m += 2) for (len = 0; len <= RLEN - 1; len++)
    { for (total = 1, i = 0; i < len; i++) total *= 5;
      for (k = 0; k < total; k++)
        { int kk = k, st; pid_t p; for (i = 0; i < len; i++) { in[i] = alpha[kk % 5]; kk /= 5; }
          n2++; p = fork ();
          if (p == 0) { fclose (stderr); _exit (one (la, m, 0, in, len) ? 3 : 0); }
          waitpid (p, &st, 0); if (!WIFEXITED (st) || WEXITSTATUS (st) != 0) { died++; if (died <= 3) { fprintf (stderr, "ALL-PARSES child failed (lookahead %d match %d):", la, m); for (i = 0; i < len; i++) fprintf (stderr, " %d", in[i]); fprintf (stderr, "\n"); } } } }
  printf ("CASE recover_all_parses %ld %s every input of <= %d tokens with all parses requested, each in a child process (%ld children stopped by a sanitizer or a failed check)\n", n2, died ? "FAIL" : "OK", RLEN - 1, died);
  return bad1 != 0 || died != 0;
}
