/* N(k) stand-in for the history-level statement of C19 on the REAL hashtab.c: every sequence of at most LEN operations
   (insert k / remove k / find k over NK keys) on a table created with the smallest size (3 slots, so that growth happens after two
   elements), under NH hash functions including a constant one (every probe collides), compared with a trivial set model:
   find hits iff the key was inserted and not removed; hash_table_elements_number is the cardinality. */
#include <stdio.h>
#include <stdlib.h>
#include <string.h>
#include "allocate.h"
#include "hashtab.h"
#ifndef LEN
#define LEN 7
#endif
#define NK 4
static int hsel;
static unsigned hf (hash_table_entry_t e) { unsigned k = (unsigned) (size_t) e - 10;
  switch (hsel) { case 0: return k; case 1: return 7; case 2: return 3 - k; case 3: return k * 2654435761u; default: return k % 2; } }
static int ef (hash_table_entry_t a, hash_table_entry_t b) { return a == b; }
#define KEY(k) ((hash_table_entry_t) (size_t) ((k) + 10))
static long cases, bad; static int ops[LEN];
static void run (YaepAllocator *al, int n)
{
  hash_table_t h = create_hash_table (al, 0, hf, ef); int model[NK] = {0}, i, card = 0, ok = 1;
  for (i = 0; i < n && ok; i++)
    {
      int op = ops[i] / NK, k = ops[i] % NK; hash_table_entry_t *p;
      if (op == 0) { p = find_hash_table_entry (h, KEY (k), 1); if (model[k]) ok = ok && *p == KEY (k); else { ok = ok && *p == NULL; *p = KEY (k); model[k] = 1; card++; } }
      else if (op == 1) { if (!model[k]) continue; remove_element_from_hash_table_entry (h, KEY (k)); model[k] = 0; card--; }
      else { p = find_hash_table_entry (h, KEY (k), 0); ok = ok && (model[k] ? *p == KEY (k) : *p == NULL); }
      ok = ok && hash_table_elements_number (h) == (size_t) card;
    }
  for (i = 0; i < NK && ok; i++) { hash_table_entry_t *p = find_hash_table_entry (h, KEY (i), 0); ok = ok && (model[i] ? *p == KEY (i) : *p == NULL); }
  cases++; if (!ok) bad++;
  delete_hash_table (h);
}
static void enumerate (YaepAllocator *al, int d, int n) { int o; if (d == n) { run (al, n); return; } for (o = 0; o < 3 * NK; o++) { ops[d] = o; enumerate (al, d + 1, n); } }
int main (void)
{
  YaepAllocator *al = yaep_alloc_new (NULL, NULL, NULL, NULL); int n;
  for (hsel = 0; hsel < 5; hsel++) for (n = 1; n <= LEN; n++) enumerate (al, 0, n);
  printf ("CASE hash_table_histories %ld %s find hits exactly the keys inserted and not removed, element count = cardinality (<= %d operations, %d keys, 5 hash functions, growth from 3 slots)\n", cases, bad ? "FAIL" : "OK", LEN, NK);
  yaep_alloc_del (al); return bad != 0;
}
