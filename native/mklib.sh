#!/bin/bash
# Build the real yaep C library from /repo's working tree (or $2) with ASan+UBSan
# into directory $1 (created).  Usage: mklib.sh <outdir> [srcdir] [extra cflags...]
set -e
OUT="$1"; SRC="${2:-/repo/src}"; shift; shift || true
mkdir -p "$OUT"
cp "$SRC"/*.c "$SRC"/*.h "$SRC"/*.y "$OUT"/
( cd "$OUT" && bison -o sgramm.c sgramm.y 2>/dev/null )
CC=${VERIF_CC:-clang}
SAN=${VERIF_SAN:--fsanitize=address,undefined -fno-sanitize-recover=undefined}
for f in allocate hashtab objstack vlobject yaep; do
  $CC -g -O1 $SAN -I"$OUT" "$@" -c "$OUT/$f.c" -o "$OUT/$f.o" &
done
wait
ar rcs "$OUT/libyaep_san.a" "$OUT"/allocate.o "$OUT"/hashtab.o "$OUT"/objstack.o "$OUT"/vlobject.o "$OUT"/yaep.o
