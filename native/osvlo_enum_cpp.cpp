/* N(k) stand-in for the C++ twins of the object stack and the variable length object (C19 "both the C and the C++ implementations",
   C16 X.cont): every sequence of at most LEN operations on `class os' (objstack.cpp) and `class vlo' (vlobject.cpp) with small initial
   sizes that force segment changes / reallocations, compared with trivial models: a list of finished byte strings with their
   addresses plus the growing top object; a byte string.  The allocator's realloc always moves the block. */
#include <stdio.h>
#include <stdlib.h>
#include <string.h>
#include "allocate.h"
#include "objstack.h"
#include "vlobject.h"
#ifndef LEN
#define LEN 6
#endif
static void *my_malloc (size_t n) { size_t *p = (size_t *) malloc (n + 16); if (!p) return 0; p[0] = n; memset (p + 2, 0xA5, n); return p + 2; }
static void my_free (void *q) { if (q) { size_t *p = (size_t *) q - 2; memset (q, 0xDD, p[0]); free (p); } }
static void *my_realloc (void *q, size_t n) { size_t old; void *r; if (!q) return my_malloc (n); old = ((size_t *) q)[-2]; r = my_malloc (n); if (!r) return 0; memcpy (r, q, old < n ? old : n); my_free (q); return r; }
static void *my_calloc (size_t a, size_t b) { void *p = my_malloc (a * b); if (p) memset (p, 0, a * b); return p; }
static int ops[LEN]; static long cases_os, bad_os, cases_vlo, bad_vlo; static unsigned char stamp;
enum { O_BYTE, O_MEM5, O_MEM20, O_EXPAND9, O_SHORT1, O_SHORT30, O_NULLIFY, O_FINISH, O_STRING, NO };
#define MAXOBJ 8
static void run_os (YaepAllocator *al, int n, size_t seg)
{
  os *o = new os (al, seg); unsigned char top[512]; size_t tl = 0; struct { char *addr; unsigned char b[512]; size_t l; } fin[MAXOBJ]; int nf = 0, i, ok = 1; size_t k;
  for (i = 0; i < n && ok; i++)
    {
      unsigned char buf[20]; for (k = 0; k < 20; k++) buf[k] = (unsigned char) (++stamp | 1);
      switch (ops[i])
        {
        case O_BYTE: o->top_add_byte (buf[0]); top[tl++] = buf[0]; break;
        case O_MEM5: o->top_add_memory (buf, 5); memcpy (top + tl, buf, 5); tl += 5; break;
        case O_MEM20: o->top_add_memory (buf, 20); memcpy (top + tl, buf, 20); tl += 20; break;
        case O_EXPAND9: o->top_expand (9); memset ((char *) o->top_bound () - 9, 0x5A, 9); memset (top + tl, 0x5A, 9); tl += 9; break;
        case O_SHORT1: o->top_shorten (1); tl = tl < 1 ? 0 : tl - 1; break;
        case O_SHORT30: o->top_shorten (30); tl = tl < 30 ? 0 : tl - 30; break;
        case O_NULLIFY: o->top_nullify (); tl = 0; break;
        case O_STRING: { char sbuf[4] = {'x', 'y', 'z', 0}; o->top_add_string (sbuf); if (tl > 0) tl--; memcpy (top + tl, sbuf, 4); tl += 4; } break;
        case O_FINISH: if (nf < MAXOBJ) { fin[nf].addr = (char *) o->top_begin (); memcpy (fin[nf].b, top, tl); fin[nf].l = tl; nf++; } o->top_finish (); tl = 0; break;
        }
      ok = ok && o->top_length () == tl && (tl == 0 || memcmp (o->top_begin (), top, tl) == 0);
      for (k = 0; k < (size_t) nf && ok; k++) ok = ok && (fin[k].l == 0 || memcmp (fin[k].addr, fin[k].b, fin[k].l) == 0);     /* finished objects neither move nor change */
    }
  cases_os++; if (!ok) bad_os++;
  delete o;
}
enum { V_BYTE, V_MEM5, V_MEM20, V_EXPAND9, V_SHORT1, V_SHORT30, V_NULLIFY, V_TAILOR, V_STRING, NV };
static void run_vlo (YaepAllocator *al, int n, size_t init)
{
  vlo *v = new vlo (al, init); unsigned char m[512]; size_t l = 0, k; int i, ok = 1;
  for (i = 0; i < n && ok; i++)
    {
      unsigned char buf[20]; for (k = 0; k < 20; k++) buf[k] = (unsigned char) (++stamp | 1);
      switch (ops[i])
        {
        case V_BYTE: v->add_byte (buf[0]); m[l++] = buf[0]; break;
        case V_MEM5: v->add_memory (buf, 5); memcpy (m + l, buf, 5); l += 5; break;
        case V_MEM20: v->add_memory (buf, 20); memcpy (m + l, buf, 20); l += 20; break;
        case V_EXPAND9: v->expand (9); memset ((char *) v->bound () - 9, 0x5A, 9); memset (m + l, 0x5A, 9); l += 9; break;
        case V_SHORT1: v->shorten (1); l = l < 1 ? 0 : l - 1; break;
        case V_SHORT30: v->shorten (30); l = l < 30 ? 0 : l - 30; break;
        case V_NULLIFY: v->nullify (); l = 0; break;
        case V_TAILOR: v->tailor (); break;
        case V_STRING: { char sbuf[4] = {'x', 'y', 'z', 0}; v->add_string (sbuf); if (l > 0) l--; memcpy (m + l, sbuf, 4); l += 4; } break;
        }
      ok = ok && v->length () == l && (l == 0 || memcmp (v->begin (), m, l) == 0);
    }
  cases_vlo++; if (!ok) bad_vlo++;
  delete v;
}
static void enumerate (YaepAllocator *al, int d, int n, int which, size_t sz)
{ int o, no = which ? NV : NO; if (d == n) { if (which) run_vlo (al, n, sz); else run_os (al, n, sz); return; } for (o = 0; o < no; o++) { ops[d] = o; enumerate (al, d + 1, n, which, sz); } }
int main (void)
{
  YaepAllocator *al = yaep_alloc_new (my_malloc, my_calloc, my_realloc, my_free); int n; size_t sz;
  for (sz = 8; sz <= 24; sz += 8) for (n = 1; n <= LEN; n++) { enumerate (al, 0, n, 0, sz == 8 ? 13 : sz); enumerate (al, 0, n, 1, sz == 8 ? 1 : sz); }
  printf ("CASE cpp_object_stack_histories %ld %s class os: finished objects never move or change, the top object holds exactly the bytes appended (<= %d operations, segment lengths 13/16/24)\n", cases_os, bad_os ? "FAIL" : "OK", LEN);
  printf ("CASE cpp_vlo_histories %ld %s class vlo: holds exactly the bytes appended minus those shortened, wherever it is reallocated (<= %d operations, initial lengths 1/16/24, realloc always moves)\n", cases_vlo, bad_vlo ? "FAIL" : "OK", LEN);
  yaep_alloc_del (al); return bad_os || bad_vlo;
}
