/* N(k) stand-in for the C++ twin of the hash table (C19 "both the C and the C++ implementations", C16 X.cont): the same history
   enumeration as native/ht_enum.c against `class hash_table' of the REAL hashtab.cpp. */
#include <stdio.h>
#include <stdlib.h>
#include <string.h>
#include "allocate.h"
#include "hashtab.h"
#ifndef LEN
#define LEN 6
#endif
#define NK 4
static int hsel;
static unsigned hf (hash_table_entry_t e) { unsigned k = (unsigned) (size_t) e - 10;
  switch (hsel) { case 0: return k; case 1: return 7; case 2: return 3 - k; case 3: return k * 2654435761u; default: return k % 2; } }
static int ef (hash_table_entry_t a, hash_table_entry_t b) { return a == b; }
#define KEY(k) ((hash_table_entry_t) (size_t) ((k) + 10))
static long cases, bad; static int ops[LEN]; static int shown;
static void run (YaepAllocator *al, int n)
{
  hash_table *h = new hash_table (al, 0, hf, ef); int model[NK] = {0}, i, card = 0, ok = 1;
  for (i = 0; i < n && ok; i++)
    {
      int op = ops[i] / NK, k = ops[i] % NK; hash_table_entry_t *p;
      if (op == 0) { p = h->find_entry (KEY (k), 1); if (model[k]) ok = ok && *p == KEY (k); else { ok = ok && *p == NULL; *p = KEY (k); model[k] = 1; card++; } }
      else if (op == 1) { if (!model[k]) continue; h->remove_element_from_entry (KEY (k)); model[k] = 0; card--; }
      else { p = h->find_entry (KEY (k), 0); ok = ok && (model[k] ? *p == KEY (k) : *p == NULL); }
      ok = ok && h->elements_number () == (size_t) card;
    }
  for (i = 0; i < NK && ok; i++) { hash_table_entry_t *p = h->find_entry (KEY (i), 0); ok = ok && (model[i] ? *p == KEY (i) : *p == NULL); }
  cases++;
  if (!ok) { bad++; if (shown++ < 3) { fprintf (stderr, "FAILING HISTORY (hash function %d):", hsel); for (i = 0; i < n; i++) fprintf (stderr, " %s(%d)", ops[i] / NK == 0 ? "insert" : ops[i] / NK == 1 ? "remove" : "find", ops[i] % NK); fprintf (stderr, "\n"); } }
  delete h;
}
static void enumerate (YaepAllocator *al, int d, int n) { int o; if (d == n) { run (al, n); return; } for (o = 0; o < 3 * NK; o++) { ops[d] = o; enumerate (al, d + 1, n); } }
int main (void)
{
  YaepAllocator *al = yaep_alloc_new (NULL, NULL, NULL, NULL); int n;
  for (hsel = 0; hsel < 5; hsel++) for (n = 1; n <= LEN; n++) enumerate (al, 0, n);
  printf ("CASE cpp_hash_table_histories %ld %s class hash_table: find hits exactly the keys inserted and not removed, element count = cardinality (<= %d operations, %d keys, 5 hash functions)\n", cases, bad ? "FAIL" : "OK", LEN, NK);
  yaep_alloc_del (al); return bad != 0;
}
