/* N(k) stand-in for the realloc-based growth of the variable length object (C19 VLO.grow):
   _VLO_expand_memory and _VLO_tailor_function of the REAL vlobject.c (staged copy, linked in),
   driven through the real macros with an allocator whose realloc ALWAYS moves the block and
   poisons the old one.  Exhaustive over initial length 0..K, appended length 1..K.  */
#include <stdio.h>
#include <stdlib.h>
#include <string.h>
#include "allocate.h"
#include "vlobject.h"
#ifndef K
#define K 64
#endif
static void *my_malloc (size_t n) { size_t *p = malloc (n + 16); if (!p) return 0; p[0] = n; memset (p + 2, 0xA5, n); return p + 2; }
static void my_free (void *q) { if (q) { size_t *p = (size_t *) q - 2; memset (q, 0xDD, p[0]); free (p); } }
static void *my_realloc (void *q, size_t n)
{ size_t old; void *r; if (q == NULL) return my_malloc (n); old = ((size_t *) q)[-2]; r = my_malloc (n); if (!r) return 0;
  memcpy (r, q, old < n ? old : n); my_free (q); return r; }
static void *my_calloc (size_t a, size_t b) { void *p = my_malloc (a * b); if (p) memset (p, 0, a * b); return p; }
int main (void)
{
  YaepAllocator *al = yaep_alloc_new (my_malloc, my_calloc, my_realloc, my_free);
  long cases = 0, tcases = 0; int bad = 0, tbad = 0; size_t len, add, init, i;
  for (init = 1; init <= 9; init += 4)
    for (len = 0; len <= K; len++)
      for (add = 1; add <= K; add++)
        {
          vlo_t v; unsigned char model[2 * K + 2];
          VLO_CREATE (v, al, init);
          for (i = 0; i < len; i++) { model[i] = (unsigned char) (i * 7 + len); VLO_ADD_BYTE (v, model[i]); }
          for (i = 0; i < add; i++) model[len + i] = (unsigned char) (0x40 + i);
          VLO_ADD_MEMORY (v, model + len, add);          /* forces _VLO_expand_memory whenever capacity is short */
          cases++;
          if (VLO_LENGTH (v) != len + add || memcmp (VLO_BEGIN (v), model, len + add) != 0
              || (char *) VLO_BOUND (v) > v.vlo_boundary) bad++;
          VLO_SHORTEN (v, add);
          VLO_TAILOR (v);                                /* _VLO_tailor_function: block moves again */
          tcases++;
          if (VLO_LENGTH (v) != len || memcmp (VLO_BEGIN (v), model, len) != 0
              || (size_t) (v.vlo_boundary - v.vlo_start) != (len ? len : 1)) tbad++;
          VLO_ADD_BYTE (v, 0x77);                        /* must notice that capacity is exhausted after tailoring */
          if (VLO_LENGTH (v) != len + 1 || ((unsigned char *) VLO_BEGIN (v))[len] != 0x77 || memcmp (VLO_BEGIN (v), model, len) != 0) tbad++;
          VLO_DELETE (v);
        }
  printf ("CASE _VLO_expand_memory %ld %s contents/length/capacity after growth with a moving realloc\n", cases, bad ? "FAIL" : "OK");
  printf ("CASE _VLO_tailor_function %ld %s contents/length/capacity after tailoring with a moving realloc, then append\n", tcases, tbad ? "FAIL" : "OK");
  yaep_alloc_del (al);
  return bad || tbad;
}
