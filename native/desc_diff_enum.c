/* N(k) stand-in for C11 on the REAL library: yaep_parse_grammar on a description text against yaep_read_grammar on the grammar the
   text denotes (by the manual), for a generated family of descriptions; both objects then parse the same inputs and the results
   (return code, number of syntax errors, the whole tree with node names, costs, terminal codes) must be identical.
   Family: one rule `S' with 1..3 alternatives; each alternative has 0..3 symbols from {'a', B (TERM-declared, implicit code),
   C (TERM C=7), N (nonterminal N : 'a')}; each alternative carries one of the translation forms: none, `#', `# k', `# -',
   `# node (k -)', `# node c (...)' with explicit cost c, `# node' ; plus long right-hand sides of 1..130 'a' (segment boundaries of the
   front end's storage).  Inputs: all token strings of length <= 3 over {a, B, C}. */
#include <stdio.h>
#include <stdlib.h>
#include <string.h>
#include <limits.h>
#include "yaep.h"
#define MAXALT 3
#ifndef NSYM
#define NSYM 4      /* symbols available to an alternative: 'a', B, C, N */
#endif
#ifndef INLEN
#define INLEN 3     /* longest input */
#endif
#define MAXRHS 140
struct alt { int n; int sym[MAXRHS]; int tform; int k; int cost; };     /* sym: 0 'a', 1 B, 2 N, 3 C */
static struct alt A[MAXALT]; static int nalt;
static const char *SYMTXT[] = {"'a'", "B", "N", "C"}; static const char *SYMNAME[] = {"'a'", "B", "N", "C"};
static int uses_N, uses_a;
/* ---- the description text ---- */
static char text[8192];
static void mktext (void)
{
  int i, j, n = 0;
  n += sprintf (text + n, "TERM B C = 7;\nS :");
  for (i = 0; i < nalt; i++)
    {
      if (i) n += sprintf (text + n, " |");
      for (j = 0; j < A[i].n; j++) n += sprintf (text + n, " %s", SYMTXT[A[i].sym[j]]);
      switch (A[i].tform)
        { case 0: break; case 1: n += sprintf (text + n, " #"); break; case 2: n += sprintf (text + n, " # %d", A[i].k); break; case 3: n += sprintf (text + n, " # -"); break;
          case 4: n += sprintf (text + n, " # node (%d -)", A[i].k); break; case 5: n += sprintf (text + n, " # node %d (%d)", A[i].cost, A[i].k); break; case 6: n += sprintf (text + n, " # node"); break; }
    }
  n += sprintf (text + n, " ;\n");
  if (uses_N) n += sprintf (text + n, "N : 'a' # 0 ;\n");
}
/* ---- the twin through callbacks, built from the manual's meaning of the text ---- */
static int ti, ri; static const char *rhsbuf[MAXRHS + 1]; static int trbuf[4];
static const char *rt (int *code)
{ switch (ti++) { case 0: *code = 256; return "B"; case 1: *code = 7; return "C"; case 2: if (!uses_a) return NULL; *code = 'a'; return "'a'"; default: return NULL; } }   /* a character constant is a terminal only where the text uses it */
static const char *rr (const char ***rhs, const char **an, int *cost, int **tr)
{
  int j;
  if (ri < nalt)
    {
      struct alt *a = &A[ri++];
      for (j = 0; j < a->n; j++) rhsbuf[j] = SYMNAME[a->sym[j]]; rhsbuf[a->n] = NULL; *rhs = rhsbuf; *an = NULL; *cost = 0; *tr = trbuf;
      switch (a->tform)
        { case 0: case 1: trbuf[0] = -1; break; case 2: trbuf[0] = a->k; trbuf[1] = -1; break; case 3: trbuf[0] = YAEP_NIL_TRANSLATION_NUMBER; trbuf[1] = -1; break;
          case 4: *an = "node"; *cost = 1; trbuf[0] = a->k; trbuf[1] = YAEP_NIL_TRANSLATION_NUMBER; trbuf[2] = -1; break;
          case 5: *an = "node"; *cost = a->cost; trbuf[0] = a->k; trbuf[1] = -1; break;
          case 6: *an = "node"; *cost = 1; trbuf[0] = -1; break; }
      return "S";
    }
  if (uses_N && ri == nalt) { static int t0[] = {0, -1}; ri++; rhsbuf[0] = "'a'"; rhsbuf[1] = NULL; *rhs = rhsbuf; *an = NULL; *cost = 0; *tr = t0; return "N"; }
  return NULL;
}
/* ---- parsing and tree printing ---- */
static const int *toks; static int ntok, pos, nerr;
static int rd (void **a) { *a = NULL; return pos < ntok ? toks[pos++] : -1; }
static void er (int a, void *b, int c, void *d, int e, void *f) { (void) a; (void) b; (void) c; (void) d; (void) e; (void) f; nerr++; }
static void pr (struct yaep_tree_node *n, char *out, int *l, int depth)
{
  struct yaep_tree_node **c;
  if (*l > 3500 || depth > 40) return;
  switch (n->type) {
  case YAEP_NIL: *l += sprintf (out + *l, "nil "); break; case YAEP_ERROR: *l += sprintf (out + *l, "err "); break;
  case YAEP_TERM: *l += sprintf (out + *l, "t%d ", n->val.term.code); break;
  case YAEP_ANODE: *l += sprintf (out + *l, "%s/%d( ", n->val.anode.name, n->val.anode.cost); for (c = n->val.anode.children; *c; c++) pr (*c, out, l, depth + 1); *l += sprintf (out + *l, ") "); break;
  case YAEP_ALT: *l += sprintf (out + *l, "alt{ "); for (; n; n = n->val.alt.next) { pr (n->val.alt.node, out, l, depth + 1); *l += sprintf (out + *l, "| "); } *l += sprintf (out + *l, "} "); break;
  default: *l += sprintf (out + *l, "?"); }
}
static void parse_one (struct grammar *g, char *out)
{ struct yaep_tree_node *root = NULL; int amb = 0, rc, l = 0; pos = 0; nerr = 0; rc = yaep_parse (g, rd, er, NULL, NULL, &root, &amb);
  l += sprintf (out, "rc=%d nerr=%d amb=%d ", rc, nerr, amb); if (root) { pr (root, out, &l, 0); yaep_free_tree (root, NULL, NULL); } }
static long cases, bad; static int shown;
static void compare (void)
{
  struct grammar *g1 = yaep_create_grammar (), *g2 = yaep_create_grammar (); int r1, r2, a, b, c, len, flags; static char o1[4096], o2[4096]; static const int T[] = {'a', 256, 7}; int in[3];
  mktext (); r1 = yaep_parse_grammar (g1, 0, text); ti = ri = 0; r2 = yaep_read_grammar (g2, 0, rt, rr);
  cases++;
  if (r1 != r2) { bad++; if (shown++ < 4) fprintf (stderr, "DIFFERENT DEFINITION RESULT %d vs %d for: %s", r1, r2, text); }
  else if (r1 == 0)
    for (flags = 0; flags < 2 && shown < 4; flags++)
      {
        yaep_set_one_parse_flag (g1, !flags); yaep_set_one_parse_flag (g2, !flags); yaep_set_cost_flag (g1, flags); yaep_set_cost_flag (g2, flags);
        for (len = 0; len <= INLEN; len++) for (a = 0; a < (len >= 1 ? 3 : 1); a++) for (b = 0; b < (len >= 2 ? 3 : 1); b++) for (c = 0; c < (len >= 3 ? 3 : 1); c++)
          { in[0] = T[a]; in[1] = T[b]; in[2] = T[c]; toks = in; ntok = len; parse_one (g1, o1); parse_one (g2, o2);
            if (strcmp (o1, o2) != 0) { bad++; if (shown++ < 4) fprintf (stderr, "DIFFERENT PARSE for %s  input len %d [%d %d %d] cost_flag=%d\n   description: %s\n   callbacks:   %s\n", text, len, in[0], in[1], in[2], flags, o1, o2); } }
      }
  yaep_free_grammar (g1); yaep_free_grammar (g2);
}
static void enum_alt (int i)
{
  int n, s0, s1, tf, k;
  if (i == nalt) { int a, j; uses_N = uses_a = 0; for (a = 0; a < nalt; a++) for (j = 0; j < A[a].n; j++) { if (A[a].sym[j] == 2) uses_N = uses_a = 1; if (A[a].sym[j] == 0) uses_a = 1; } compare (); return; }
  for (n = 0; n <= 2; n++) for (s0 = 0; s0 < (n >= 1 ? NSYM : 1); s0++) for (s1 = 0; s1 < (n >= 2 ? NSYM : 1); s1++)
    for (tf = 0; tf <= 6; tf++) for (k = 0; k < ((tf == 2 || tf == 4 || tf == 5) ? (n > 0 ? n : 1) : 1); k++)
      { if ((tf == 2 || tf == 4 || tf == 5) && n == 0) continue;
        A[i].n = n; A[i].sym[0] = s0; A[i].sym[1] = s1; A[i].tform = tf; A[i].k = k; A[i].cost = 5; enum_alt (i + 1); }
}
int main (void)
{
  long c1, b1; int n, j;
  for (nalt = 1; nalt <= 2; nalt++) enum_alt (0);
  printf ("CASE description_vs_callbacks %ld %s same definition result, same parse results and trees (1..2 alternatives, <= 2 symbols, 7 translation forms, inputs of length <= 3, with and without cost flag)\n", cases, bad ? "FAIL" : "OK");
  c1 = cases; b1 = bad; cases = bad = 0;
  /* long right-hand sides: first alternative of n 'a' with an abstract node of explicit cost, second alternative with default cost */
  for (n = 1; n <= 130; n++)
    { nalt = 2; A[0].n = n; for (j = 0; j < n; j++) A[0].sym[j] = 0; A[0].tform = 5; A[0].k = n - 1; A[0].cost = 7; A[1].n = 1; A[1].sym[0] = 3; A[1].tform = 6; uses_N = 0; uses_a = 1; compare (); }
  printf ("CASE description_long_rhs %ld %s right-hand sides of 1..130 symbols followed by an alternative with default cost\n", cases, bad ? "FAIL" : "OK");
  return (b1 || bad) != 0;
}
