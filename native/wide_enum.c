/* N(k) stand-in for C12 on grammar SHAPES that make the per-grammar and per-set containers grow (the 120 tests and the other stand-ins use
   grammars of a handful of symbols): n alternatives over n terminals (one Earley set with n (core, symbol) pairs: the array of vlos is
   reallocated while core_symb_vect_new holds elements of it), right-hand sides of n symbols (a rule outgrows its object-stack segment),
   names of n characters (the lexer's token text crosses segments), each followed by a REdefinition of the same object (OS_EMPTY on
   chained stacks) and a second parse.  Real library under ASan/UBSan/LeakSanitizer; ASan's realloc always moves the block. */
#include <stdio.h>
#include <stdlib.h>
#include <string.h>
#include "yaep.h"
#ifndef WIDE_MAX
#define WIDE_MAX 300
#endif
static int toks[2 * WIDE_MAX + 8], ntok, pos, nerr;
static int rd (void **a) { *a = NULL; return pos < ntok ? toks[pos++] : -1; }
static void er (int a, void *b, int c, void *d, int e, void *f) { (void) a; (void) b; (void) c; (void) d; (void) e; (void) f; nerr++; }
static char text[64 * WIDE_MAX + 4096];
static long cases, bad;
static void fail (const char *what, int shape, int n) { bad++; if (bad <= 5) fprintf (stderr, "WIDE shape %d n=%d: %s\n", shape, n, what); }
static int count_terms (struct yaep_tree_node *t) { int k = 0; struct yaep_tree_node **c; if (t == NULL) return 0; if (t->type == YAEP_TERM) return 1;
  if (t->type == YAEP_ANODE) for (c = t->val.anode.children; *c != NULL; c++) k += count_terms (*c); return k; }
/* builds description of the shape into text and the sentence into toks; returns number of TERM nodes expected in the tree */
static int build (int shape, int n)
{
  int i, k = 0; char *p = text;
  switch (shape)
    {
    case 0: /* n alternatives over n declared terminals */
      p += sprintf (p, "TERM"); for (i = 0; i < n; i++) p += sprintf (p, " t%d=%d", i, 1000 + i); p += sprintf (p, ";\nS :");
      for (i = 0; i < n; i++) p += sprintf (p, "%s t%d # n%d (0)\n", i ? " |" : "", i, i % 7);
      p += sprintf (p, " ;\n"); toks[0] = 1000 + n - 1; ntok = 1; return 1;
    case 1: /* one right-hand side of n symbols */
      p += sprintf (p, "S :"); for (i = 0; i < n; i++) p += sprintf (p, " 'a'"); p += sprintf (p, " 'b' # node (0 %d) ;\n", n);
      for (i = 0; i < n; i++) toks[k++] = 'a'; toks[k++] = 'b'; ntok = k; return 2;
    default: /* a terminal and a nonterminal whose names have n characters */
      p += sprintf (p, "TERM "); for (i = 0; i < n; i++) *p++ = 'x'; p += sprintf (p, "=7;\n"); for (i = 0; i < n; i++) *p++ = 'Y'; p += sprintf (p, " : ");
      for (i = 0; i < n; i++) *p++ = 'x'; p += sprintf (p, " # 0 | "); for (i = 0; i < n; i++) *p++ = 'Y'; *p++ = ' '; for (i = 0; i < n; i++) *p++ = 'x'; p += sprintf (p, " # l (0 1) ;\n");
      toks[0] = 7; toks[1] = 7; toks[2] = 7; ntok = 3; return 3;
    }
}
static void one (struct grammar *g, int shape, int n, int la)
{
  struct yaep_tree_node *root = NULL; int amb, rc, want;
  want = build (shape, n); cases++;
  yaep_set_lookahead_level (g, la);
  rc = yaep_parse_grammar (g, 1, text);
  if (rc != 0) { fail (yaep_error_message (g), shape, n); return; }
  pos = 0; nerr = 0; rc = yaep_parse (g, rd, er, NULL, NULL, &root, &amb);
  if (rc != 0 || nerr != 0 || root == NULL) fail ("the sentence of the shape is not parsed", shape, n);
  else if (count_terms (root) != want) fail ("the tree does not hold the expected terminals", shape, n);
  if (root != NULL) yaep_free_tree (root, NULL, NULL);
  /* an input that is no sentence: reported, recovered, never a crash */
  toks[ntok++] = shape == 0 ? 1000 : shape == 1 ? 'a' : 8; pos = 0; nerr = 0; root = NULL;
  rc = yaep_parse (g, rd, er, NULL, NULL, &root, &amb);
  if (shape == 2 ? rc != YAEP_INVALID_TOKEN_CODE : (rc != 0 || nerr < 1)) fail ("a non-sentence is not reported", shape, n);
  if (root != NULL) yaep_free_tree (root, NULL, NULL);
}
int main (void)
{
  static const int N[] = {1, 2, 7, 31, 63, 64, 65, 92, 93, 94, 95, 96, 97, 98, 127, 128, 129, 141, 147, 200, 255, 256, 257, WIDE_MAX};
  unsigned i, j; int shape, la;
  for (i = 0; i < sizeof N / sizeof *N; i++) if (N[i] <= WIDE_MAX) for (shape = 0; shape < 3; shape++) for (la = 0; la <= 2; la++)
    {
      /* fresh object, then the same object redefined with every other shape and size class, then once more with this one */
      struct grammar *g = yaep_create_grammar ();
      one (g, shape, N[i], la);
      for (j = 0; j < 3; j++) one (g, (shape + 1 + j) % 3, j == 0 ? 3 : j == 1 ? N[i] : 600 % (N[i] + 1) + 1, la);
      one (g, shape, N[i], la);
      yaep_free_grammar (g);
    }
  printf ("CASE wide_grammars %ld %s n alternatives over n terminals / a right-hand side of n symbols / names of n characters, n in 1..%d around the container growth points, each defined, "
          "parsed (sentence and non-sentence), redefined on the same object with the other shapes and parsed again; lookahead 0..2\n", cases, bad ? "FAIL" : "OK", WIDE_MAX);
  return bad != 0;
}
