/* N(k) stand-in for the intake checks of yaep_read_grammar (C10): the REAL function through the public API on every combination of
   a small space of terminal lists and rule lists that contain the documented intake defects, compared with the list of defects in the
   property statement.  Expected: return 0 iff no defect is present; a nonzero code names a defect that is present; yaep_error_code
   equals it; the object then refuses to parse (YAEP_UNDEFINED_OR_BAD_GRAMMAR). Non-strict mode; the rule shapes are chosen so that no
   structural defect (derivation, reachability, loops) can occur, those are RG.verdict.native's business. */
#include <stdio.h>
#include <stdlib.h>
#include <string.h>
#include <limits.h>
#include "yaep.h"
struct t { const char *name; int code; };
static const struct t TERMS[] = { {"a", 1}, {"b", 2}, {"a", 3}, {"c", 1}, {"d", -1}, {"error", 5}, {"$eof", 6}, {"$S", 7}, {"e", 0} };
#define NT ((int) (sizeof TERMS / sizeof TERMS[0]))
static int tsel[3], ntsel;
static int T0[] = {-1}, T1[] = {0, -1}, T2[] = {1, -1}, T3[] = {0, 1, -1}, T4[] = {0, 0, -1}, T5[] = {2, -1}, T6[] = {YAEP_NIL_TRANSLATION_NUMBER, -1}, T7[] = {0, YAEP_NIL_TRANSLATION_NUMBER, -1},
           T8[] = {1, 0, -1}, T9[] = {YAEP_NIL_TRANSLATION_NUMBER, YAEP_NIL_TRANSLATION_NUMBER, -1};
static int *TRANS[] = { NULL, T0, T1, T2, T3, T4, T5, T6, T7, T8, T9 };
#define NTR ((int) (sizeof TRANS / sizeof TRANS[0]))
static const char *R_ab[] = {"a", "b", NULL}, *R_a[] = {"a", NULL}, *R_eof[] = {"a", "$eof", NULL}, *R_S[] = {"a", "$S", NULL}, *R_err[] = {"error", "b", NULL};
static const char **RHS[] = { R_ab, R_a, R_eof, R_S, R_err };
static const int RLEN[] = { 2, 1, 2, 2, 2 };
#define NRHS 5
static const char *LHS[] = { "S", "a", "$S", "$eof", "error" };
#define NLHS 5
static int r_lhs, r_rhs, r_tr, r_an, r_cost, with_rules;
static int ti, ri;
static const char *rt (int *code) { if (ti >= ntsel) return NULL; *code = TERMS[tsel[ti]].code; return TERMS[tsel[ti++]].name; }
static const char *rr (const char ***rhs, const char **an, int *cost, int **tr)
{ if (!with_rules || ri++) return NULL; *rhs = RHS[r_rhs]; *an = r_an ? "node" : NULL; *cost = r_cost; *tr = TRANS[r_tr]; return LHS[r_lhs]; }
static int tok_pos; static int rd (void **a) { *a = NULL; return tok_pos++ ? -1 : 1; }
static void er (int a, void *b, int c, void *d, int e, void *f) { (void) a; (void) b; (void) c; (void) d; (void) e; (void) f; }
static int declared (const char *n) { int i; for (i = 0; i < ntsel; i++) if (strcmp (TERMS[tsel[i]].name, n) == 0) return 1; return 0; }
static long cases, bad; static int shown;
static void one (void)
{
  struct grammar *g = yaep_create_grammar (); int rc, i, j, ok, any, structural_ok;
  /* defects present, by the documented list */
  int d_neg = 0, d_rdecl = 0, d_rcode = 0, d_fixed = 0, d_norules = !with_rules, d_termlhs = 0, d_trans = 0, d_cost = 0, d_num = 0, d_rep = 0;
  for (i = 0; i < ntsel; i++)
    { if (TERMS[tsel[i]].code < 0) d_neg = 1;
      if (!strcmp (TERMS[tsel[i]].name, "error") || !strcmp (TERMS[tsel[i]].name, "$S") || !strcmp (TERMS[tsel[i]].name, "$eof")) d_fixed = 1;
      for (j = 0; j < i; j++) { if (!strcmp (TERMS[tsel[i]].name, TERMS[tsel[j]].name)) d_rdecl = 1; if (TERMS[tsel[i]].code == TERMS[tsel[j]].code) d_rcode = 1; } }
  if (with_rules)
    {
      int *tr = TRANS[r_tr], n = 0, seen[3] = {0, 0, 0};
      if (declared (LHS[r_lhs]) || !strcmp (LHS[r_lhs], "error")) d_termlhs = 1;      /* `error' is a terminal of every grammar */
      if (!strcmp (LHS[r_lhs], "$S") || !strcmp (LHS[r_lhs], "$eof") || !strcmp (LHS[r_lhs], "error")) d_fixed = 1;
      for (j = 0; RHS[r_rhs][j] != NULL; j++) if (!strcmp (RHS[r_rhs][j], "$S") || !strcmp (RHS[r_rhs][j], "$eof")) d_fixed = 1;    /* `error' in a rhs is its documented use */
      if (tr != NULL) { for (n = 0; tr[n] >= 0; n++) { if (tr[n] != YAEP_NIL_TRANSLATION_NUMBER) { if (tr[n] >= RLEN[r_rhs]) d_num = 1; else if (seen[tr[n]]++) d_rep = 1; } } }
      if (!r_an && n >= 2) d_trans = 1;
      if (r_an && r_cost < 0) d_cost = 1;
      /* an undeclared rhs symbol is a nonterminal without rules: with `a'/`b' undeclared the start symbol derives no terminal string */
    }
  any = d_neg || d_rdecl || d_rcode || d_fixed || d_norules || d_termlhs || d_trans || d_cost || d_num || d_rep;
  ti = ri = 0; rc = yaep_read_grammar (g, 0, rt, rr);
  /* the structural outcome (derivation / reachability / loops) is only predicted when every rhs symbol is a declared terminal (or error) */
  { int j2; structural_ok = 1; if (with_rules) for (j2 = 0; RHS[r_rhs][j2] != NULL; j2++) if (!declared (RHS[r_rhs][j2]) && strcmp (RHS[r_rhs][j2], "error")) structural_ok = 0; }
  if (!structural_ok && (rc == YAEP_NONTERM_DERIVATION || rc == YAEP_UNACCESSIBLE_NONTERM || rc == YAEP_LOOP_NONTERM || (rc == 0 && !any))) { yaep_free_grammar (g); return; }
  ok = (rc == 0) == !any;
  switch (rc) { case 0: break;
    case YAEP_NEGATIVE_TERM_CODE: ok = ok && d_neg; break; case YAEP_REPEATED_TERM_DECL: ok = ok && d_rdecl; break; case YAEP_REPEATED_TERM_CODE: ok = ok && d_rcode; break;
    case YAEP_FIXED_NAME_USAGE: ok = ok && d_fixed; break; case YAEP_NO_RULES: ok = ok && d_norules; break; case YAEP_TERM_IN_RULE_LHS: ok = ok && d_termlhs; break;
    case YAEP_INCORRECT_TRANSLATION: ok = ok && d_trans; break; case YAEP_NEGATIVE_COST: ok = ok && d_cost; break;
    case YAEP_INCORRECT_SYMBOL_NUMBER: ok = ok && d_num; break; case YAEP_REPEATED_SYMBOL_NUMBER: ok = ok && d_rep; break;
    default: ok = ok && any && (rc == YAEP_NONTERM_DERIVATION || rc == YAEP_UNACCESSIBLE_NONTERM || rc == YAEP_LOOP_NONTERM) && 0; }
  if (rc != 0) { struct yaep_tree_node *root; int amb; ok = ok && yaep_error_code (g) == rc && yaep_error_message (g)[0] != '\0';
    tok_pos = 0; ok = ok && yaep_parse (g, rd, er, NULL, NULL, &root, &amb) == YAEP_UNDEFINED_OR_BAD_GRAMMAR; }
  cases++;
  if (!ok) { bad++; if (shown++ < 6) { fprintf (stderr, "MISMATCH rc=%d defects: neg=%d rdecl=%d rcode=%d fixed=%d norules=%d termlhs=%d trans=%d cost=%d num=%d rep=%d | terms:", rc, d_neg, d_rdecl, d_rcode, d_fixed, d_norules, d_termlhs, d_trans, d_cost, d_num, d_rep);
      for (i = 0; i < ntsel; i++) fprintf (stderr, " %s=%d", TERMS[tsel[i]].name, TERMS[tsel[i]].code);
      if (with_rules) fprintf (stderr, " | rule: %s : rhs#%d anode=%d cost=%d trans#%d", LHS[r_lhs], r_rhs, r_an, r_cost, r_tr); fprintf (stderr, "\n"); } }
  yaep_free_grammar (g);
}
int main (void)
{
  int a, b, c;
  for (ntsel = 0; ntsel <= 3; ntsel++)
    for (a = 0; a < NT; a++) for (b = 0; b < (ntsel >= 2 ? NT : 1); b++) for (c = 0; c < (ntsel >= 3 ? NT : 1); c++)
      {
        if (ntsel == 0 && a > 0) continue;
        tsel[0] = a; tsel[1] = b; tsel[2] = c;
        with_rules = 0; one ();
        with_rules = 1;
        for (r_lhs = 0; r_lhs < NLHS; r_lhs++) for (r_rhs = 0; r_rhs < NRHS; r_rhs++) for (r_tr = 0; r_tr < NTR; r_tr++) for (r_an = 0; r_an < 2; r_an++) for (r_cost = -1; r_cost <= 1; r_cost++) one ();
      }
  printf ("CASE read_grammar_intake %ld %s return code against the documented list of intake defects (terminal lists of <= 3 of %d entries, one rule of %d lhs x %d rhs x %d translations x anode x cost)\n",
          cases, bad ? "FAIL" : "OK", NT, NLHS, NRHS, NTR);
  return bad != 0;
}
