/* F32 (C12/C04): cost flag + all parses on an ambiguous sentence whose translations are all NIL: NULL dereference in prune_to_minimal. */
#include "common.h"
int main (void)
{
  struct grammar *g = yaep_create_grammar (); struct yaep_tree_node *root; int amb; int t[] = {'a'};
  CHECK (yaep_parse_grammar (g, 0, "S : 'a' # - | 'a' # - ;\n") == 0, "define");
  yaep_set_one_parse_flag (g, 0); yaep_set_cost_flag (g, 1);
  CHECK (parse_codes (g, t, 1, &root, &amb) == 0 && root != NULL, "parse");
  yaep_free_tree (root, NULL, NULL); yaep_free_grammar (g);
  puts ("ok"); return 0;
}
