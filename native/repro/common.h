/* Shared helpers for the native demonstrations (real library, ASan/UBSan). */
#include <stdio.h>
#include <stdlib.h>
#include <string.h>
#include "yaep.h"
static const int *g_toks; static int g_ntok, g_pos;
static int rd_tok (void **attr) { *attr = NULL; return g_pos < g_ntok ? g_toks[g_pos++] : -1; }
static int g_nerr;
static void on_err (int a, void *b, int c, void *d, int e, void *f) { (void)a;(void)b;(void)c;(void)d;(void)e;(void)f; g_nerr++; }
static int parse_codes (struct grammar *g, const int *t, int n, struct yaep_tree_node **root, int *amb)
{ g_toks = t; g_ntok = n; g_pos = 0; g_nerr = 0; return yaep_parse (g, rd_tok, on_err, NULL, NULL, root, amb); }
#define CHECK(c, msg) do { if (!(c)) { printf ("DEFECT: %s\n", msg); return 1; } } while (0)
