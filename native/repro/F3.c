/* F3 (C12): long symbol name in an error message overflows error_message[201]. */
#include "common.h"
static char name[301]; static int k;
static const char *rt (int *code) { if (k >= 2) return NULL; *code = 300 + k; k++; return name; }
static const char *rr (const char ***rhs, const char **an, int *cost, int **tr) { (void)rhs;(void)an;(void)cost;(void)tr; return NULL; }
int main (void)
{
  struct grammar *g = yaep_create_grammar (); int rc;
  memset (name, 'n', 300); name[300] = 0;
  rc = yaep_read_grammar (g, 1, rt, rr);
  CHECK (rc == YAEP_REPEATED_TERM_DECL, "code");
  CHECK (strlen (yaep_error_message (g)) <= 200, "message does not fit");
  CHECK (strlen (yaep_error_message (g)) > 0, "message empty");
  yaep_free_grammar (g);
  puts ("ok"); return 0;
}
