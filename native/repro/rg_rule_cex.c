/* Counterexample replay for RG.rule: the rule SHAPE of the verifier's counterexample (number of right-hand side names, translation
   numbers, abstract node or not, cost) is given on the command line; the real yaep_read_grammar is run on the grammar
       TERM t0 .. t7;  A : t0 .. t<rl-1> # [N] (transl)
   and the outcome is compared with the property statement (C10): 0 iff the rule has none of the documented defects, a nonzero code
   names a defect that is present; after a successful definition the sentence t0 .. t<rl-1> is parsed and the tree must be the documented
   translation (abstract node N with one child per translation number, `-' is the NIL node; without abstract node the single translated
   symbol or NIL).   usage: rg_rule_cex rl tl anode cost has_transl tv0 .. tv7 */
#include "common.h"
#include <limits.h>
static int rl, tl, an, cost, has_tr, tv[9];
static const char *tn[8] = { "t0", "t1", "t2", "t3", "t4", "t5", "t6", "t7" };
static int ti, ri; static const char *rhs[9];
static const char *rt (int *code) { if (ti >= 8) return NULL; *code = 100 + ti; return tn[ti++]; }
static const char *rr (const char ***r, const char **a, int *c, int **t)
{ int j; if (ri++) return NULL; for (j = 0; j < rl; j++) rhs[j] = tn[j]; rhs[rl] = NULL; *r = rhs; *a = an ? "N" : NULL; *c = cost; *t = has_tr ? tv : NULL; return "A"; }
int main (int argc, char **argv)
{
  struct grammar *g; struct yaep_tree_node *root = NULL; int i, j, rc, amb, toks[8];
  int d_trans, d_cost, d_range = 0, d_rep = 0, nch = 0;
  if (argc != 14) { fprintf (stderr, "usage\n"); return 2; }
  rl = atoi (argv[1]); tl = atoi (argv[2]); an = atoi (argv[3]); cost = atoi (argv[4]); has_tr = atoi (argv[5]);
  if (rl < 0 || rl > 8 || tl < 0 || tl > 8) return 2;
  for (i = 0; i < 8; i++) tv[i] = atoi (argv[6 + i]);
  tv[tl] = -1; if (!has_tr) tl = 0;
  /* the documented defects of this rule */
  d_trans = !an && tl >= 2; d_cost = an && cost < 0;
  for (i = 0; i < tl; i++) { if (tv[i] >= rl && tv[i] != YAEP_NIL_TRANSLATION_NUMBER) d_range = 1; for (j = 0; j < i; j++) if (tv[i] < rl && tv[j] == tv[i]) d_rep = 1; }
  g = yaep_create_grammar (); CHECK (g != NULL, "no grammar");
  rc = yaep_read_grammar (g, 0, rt, rr);
  printf ("rule: rl=%d tl=%d anode=%d cost=%d transl=%d -> yaep_read_grammar returned %d (%s)\n", rl, tl, an, cost, has_tr, rc, rc ? yaep_error_message (g) : "ok");
  CHECK ((rc == 0) == !(d_trans || d_cost || d_range || d_rep), "C10: the definition succeeds iff the rule has none of the documented defects");
  if (rc != 0)
    {
      CHECK (rc != YAEP_INCORRECT_TRANSLATION || d_trans, "C10: YAEP_INCORRECT_TRANSLATION without several translated symbols and no abstract node");
      CHECK (rc != YAEP_NEGATIVE_COST || d_cost, "C10: YAEP_NEGATIVE_COST without a negative cost");
      CHECK (rc != YAEP_INCORRECT_SYMBOL_NUMBER || d_range, "C10: YAEP_INCORRECT_SYMBOL_NUMBER although every number is in range or `-'");
      CHECK (rc != YAEP_REPEATED_SYMBOL_NUMBER || d_rep, "C10: YAEP_REPEATED_SYMBOL_NUMBER although no position is named twice");
      CHECK (rc == YAEP_INCORRECT_TRANSLATION || rc == YAEP_NEGATIVE_COST || rc == YAEP_INCORRECT_SYMBOL_NUMBER || rc == YAEP_REPEATED_SYMBOL_NUMBER, "C10: a code that names no defect of this rule");
      yaep_free_grammar (g); printf ("OK\n"); return 0;
    }
  for (i = 0; i < rl; i++) toks[i] = 100 + i;
  rc = parse_codes (g, toks, rl, &root, &amb);
  CHECK (rc == 0 && g_nerr == 0 && root != NULL, "the sentence t0 .. t<rl-1> is not parsed");
  if (an)
    {
      CHECK (root->type == YAEP_ANODE && strcmp (root->val.anode.name, "N") == 0 && root->val.anode.cost == cost, "abstract node name / cost");
      for (i = 0; i < tl; i++)
        { struct yaep_tree_node *c = root->val.anode.children[nch++]; CHECK (c != NULL, "fewer children than translation numbers");
          if (tv[i] == YAEP_NIL_TRANSLATION_NUMBER) CHECK (c->type == YAEP_NIL, "`-' must be the NIL node");
          else CHECK (c->type == YAEP_TERM && c->val.term.code == 100 + tv[i], "child is not the named right-hand side symbol"); }
      CHECK (root->val.anode.children[nch] == NULL, "more children than translation numbers");
    }
  else if (tl == 0 || tv[0] == YAEP_NIL_TRANSLATION_NUMBER) CHECK (root->type == YAEP_NIL, "empty translation must be the NIL node");
  else CHECK (root->type == YAEP_TERM && root->val.term.code == 100 + tv[0], "translation is not the named symbol");
  yaep_free_tree (root, NULL, NULL); yaep_free_grammar (g); printf ("OK\n"); return 0;
}
