/* F18 (C14): second parse on the same object. */
#include "common.h"
int main (void)
{
  struct grammar *g = yaep_create_grammar (); struct yaep_tree_node *root; int amb; int la;
  int t[] = {'a', '+', 'a', '+', 'a'};
  CHECK (yaep_parse_grammar (g, 1, "E : E '+' E # plus 1 (0 2) | 'a' # 0 ;\n") == 0, "define");
  for (la = 0; la <= 2; la++)
    {
      yaep_set_lookahead_level (g, la);
      CHECK (parse_codes (g, t, 5, &root, &amb) == 0 && root != NULL, "parse 1");
      yaep_free_tree (root, NULL, NULL);
      CHECK (parse_codes (g, t, 5, &root, &amb) == 0 && root != NULL, "parse 2");
      yaep_free_tree (root, NULL, NULL);
    }
  yaep_free_grammar (g);
  puts ("ok"); return 0;
}
