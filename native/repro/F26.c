/* F26 (C13): yaep_free_tree passes NULL to the caller's parse_free for every abstract node after the first that shares its name block
   (two nodes built by the same rule).  parse_free is only promised blocks that parse_alloc returned. */
#include "common.h"
static int null_seen;
static void *my_alloc (int n) { return malloc (n); }
static void my_free (void *p) { if (p == NULL) null_seen++; free (p); }
int main (void)
{
  struct grammar *g = yaep_create_grammar (); struct yaep_tree_node *root; int amb; int t[] = {'a', 'a'};
  CHECK (yaep_parse_grammar (g, 1, "S : A A # s (0 1) ;\nA : 'a' # x (0) ;\n") == 0, "define");
  g_toks = t; g_ntok = 2; g_pos = 0;
  CHECK (yaep_parse (g, rd_tok, on_err, my_alloc, my_free, &root, &amb) == 0 && root != NULL, "parse");
  yaep_free_tree (root, my_free, NULL);
  CHECK (null_seen == 0, "parse_free was called with NULL");
  yaep_free_grammar (g);
  puts ("ok"); return 0;
}
