/* C14 demo 1: a parse must not change the object's own settings.
   With the cost flag on, make_parse() temporarily clears one_parse_p; the
   value must be back afterwards whatever the input was.  */
#include <stdio.h>
#include <stdlib.h>
#include <string.h>
#include "yaep.h"

static const char *descr =
  "TERM;\n"
  "E : E '+' E # plus (0 2)\n"
  "  | 'a'     # 0\n"
  "  ;\n";

static const char *input;
static int pos;

static int
read_tok (void **attr)
{
  *attr = NULL;
  if (input[pos] == '\0')
    return -1;
  return input[pos++];
}

static void
syn_err (int a, void *b, int c, void *d, int e, void *f)
{
  (void) a; (void) b; (void) c; (void) d; (void) e; (void) f;
}

static int
count_alts (struct yaep_tree_node *n)
{
  int i, r = 0;

  if (n == NULL)
    return 0;
  switch (n->type)
    {
    case YAEP_ANODE:
      for (i = 0; n->val.anode.children[i] != NULL; i++)
	r += count_alts (n->val.anode.children[i]);
      return r;
    case YAEP_ALT:
      return 1 + count_alts (n->val.alt.node) + count_alts (n->val.alt.next);
    default:
      return 0;
    }
}

/* Parse STR with G, return number of ALT nodes (or -100-code on error).  */
static int
run (struct grammar *g, const char *str, int *amb)
{
  struct yaep_tree_node *root;
  int code, n;

  input = str;
  pos = 0;
  code = yaep_parse (g, read_tok, syn_err, NULL, NULL, &root, amb);
  if (code != 0)
    return -100 - code;
  n = count_alts (root);
  yaep_free_tree (root, NULL, NULL);
  return n;
}

int
main (void)
{
  struct grammar *used, *fresh;
  int amb, old, n_used, n_fresh, bad = 0;

  /* The object with a history.  */
  used = yaep_create_grammar ();
  if (used == NULL || yaep_parse_grammar (used, 1, descr) != 0)
    return 2;
  yaep_set_one_parse_flag (used, 1);
  yaep_set_cost_flag (used, 1);
  /* Unambiguous sentence while the cost flag is on.  */
  if (run (used, "a", &amb) != 0 || amb)
    return 2;
  yaep_set_cost_flag (used, 0);
  /* The one-parse flag we set must still be there.  */
  old = yaep_set_one_parse_flag (used, 1);
  if (old != 1)
    {
      fprintf (stderr, "one_parse flag changed by a parse: %d\n", old);
      bad = 1;
      /* put the object into the state the mutated library left it in, so
         that the behavioural check below speaks for itself.  */
      yaep_set_one_parse_flag (used, old);
    }

  /* A fresh object with the same definition and the same settings.  */
  fresh = yaep_create_grammar ();
  if (fresh == NULL || yaep_parse_grammar (fresh, 1, descr) != 0)
    return 2;
  yaep_set_one_parse_flag (fresh, 1);
  yaep_set_cost_flag (fresh, 0);

  n_used = run (used, "a+a+a", &amb);
  n_fresh = run (fresh, "a+a+a", &amb);
  if (n_used != n_fresh || n_fresh != 0)
    {
      fprintf (stderr, "ALT nodes: used object %d, fresh object %d\n",
	       n_used, n_fresh);
      bad = 1;
    }
  yaep_free_grammar (fresh);
  yaep_free_grammar (used);
  return bad;
}
