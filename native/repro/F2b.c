/* F2b (C15/C12): a terminal with code INT_MAX: max_code - min_code overflows (min is the code -2 of `error'). */
#include "common.h"
#include <limits.h>
static int k;
static const char *rt (int *code) { if (k >= 1) return NULL; *code = INT_MAX; k++; return "t"; }
static const char *rhs1[] = {"t", NULL}; static int tr[] = {0, -1}; static int r;
static const char *rr (const char ***rhs, const char **an, int *cost, int **transl)
{ if (r++) return NULL; *rhs = rhs1; *an = NULL; *cost = 0; *transl = tr; return "S"; }
int main (void)
{
  struct grammar *g = yaep_create_grammar (); struct yaep_tree_node *root; int amb; int t[] = {INT_MAX}, u[] = {5};
  CHECK (yaep_read_grammar (g, 1, rt, rr) == 0, "define");
  CHECK (parse_codes (g, t, 1, &root, &amb) == 0 && g_nerr == 0 && root != NULL, "parse");
  yaep_free_tree (root, NULL, NULL);
  CHECK (parse_codes (g, u, 1, &root, &amb) == YAEP_INVALID_TOKEN_CODE, "undeclared code accepted");
  yaep_free_grammar (g);
  puts ("ok"); return 0;
}
