/* C17 demo 3: allocation failure while yaep_parse_grammar is still
   reading the textual grammar description, with other grammar objects
   around.

   The description is large enough that the description reader has to
   grow its internal tables several times.  For every k up to the number
   of allocations the fault-free yaep_parse_grammar (g1, ...) performs,
   the k-th one is made to fail, in two settings:

     A) another, fully defined grammar g2 is alive.  The failing call
        must return YAEP_NO_MEMORY and record the error in g1 -- and g2
        (its error code / message and its ability to parse) must be
        untouched.
     B) another grammar g2 was created, used and *freed* just before
        the call.  The failing call must still return YAEP_NO_MEMORY
        and record it in g1, and g1 can be freed.

   The first five allocations of yaep_parse_grammar (creation of the
   description reader's five containers) are skipped: on the unmodified
   tree a failure there already aborts in the clean-up code, which is a
   pre-existing defect and not what this demo is about.

   Every (setting, k) runs in a forked child so that a crash (signal or
   sanitizer report = exit status 1) shows up in the parent as a bad
   wait status.  Exit status: 0 = property holds, 1 = it does not.  */

#include <stdio.h>
#include <stdlib.h>
#include <string.h>
#include <unistd.h>
#include <sys/wait.h>
#include "yaep.h"

/* ---- fault injection: interpose malloc/calloc/realloc ---- */
#if defined(__has_feature)
# if __has_feature(address_sanitizer)
#  define DEMO_ASAN 1
# endif
#endif
#if defined(__SANITIZE_ADDRESS__) && !defined(DEMO_ASAN)
# define DEMO_ASAN 1
#endif
#ifdef DEMO_ASAN
extern void *__interceptor_malloc (size_t);
extern void *__interceptor_calloc (size_t, size_t);
extern void *__interceptor_realloc (void *, size_t);
# define REAL_MALLOC __interceptor_malloc
# define REAL_CALLOC __interceptor_calloc
# define REAL_REALLOC __interceptor_realloc
#else
extern void *__libc_malloc (size_t);
extern void *__libc_calloc (size_t, size_t);
extern void *__libc_realloc (void *, size_t);
# define REAL_MALLOC __libc_malloc
# define REAL_CALLOC __libc_calloc
# define REAL_REALLOC __libc_realloc
#endif

static int fi_on;
static long fi_count, fi_fail_at;

static int
fi_hit (void)
{
  if (!fi_on)
    return 0;
  fi_count++;
  return fi_count == fi_fail_at;
}

void *malloc (size_t n) { return fi_hit () ? NULL : REAL_MALLOC (n); }
void *calloc (size_t a, size_t b) { return fi_hit () ? NULL : REAL_CALLOC (a, b); }
void *realloc (void *p, size_t n) { return fi_hit () ? NULL : REAL_REALLOC (p, n); }

/* ---- grammars ---- */
static const char *small_descr =
  "TERM;\n"
  "E : E '+' T # plus (0 2)\n"
  "  | T # 0\n"
  "  ;\n"
  "T : 'a' # 0\n"
  "  ;\n";

#define N 70
static char big_descr[20000];

static void
make_big_descr (void)
{
  char *p = big_descr;
  int i;

  p += sprintf (p, "TERM");
  for (i = 0; i < N; i++)
    p += sprintf (p, " t%d = %d", i, 300 + i);
  p += sprintf (p, ";\nS : S X # s (0 1)\n  | X # 0\n  ;\nX : ");
  for (i = 0; i < N; i++)
    p += sprintf (p, "%sN%d # 0\n", i ? "  | " : "", i);
  p += sprintf (p, "  ;\n");
  for (i = 0; i < N; i++)
    p += sprintf (p, "N%d : t%d # n%d (0)\n  ;\n", i, i, i);
}

static const char *input;
static int pos;
static int rd (void **attr) { *attr = NULL; return input[pos] ? input[pos++] : -1; }
static void se (int a, void *b, int c, void *d, int e, void *f)
{ (void) a; (void) b; (void) c; (void) d; (void) e; (void) f; }
static void *pa (int n) { return malloc (n); }
static void pf (void *p) { free (p); }

static int
use_small (struct grammar *g)
{
  struct yaep_tree_node *root;
  int amb, rc;

  input = "a+a";
  pos = 0;
  rc = yaep_parse (g, rd, se, pa, pf, &root, &amb);
  if (rc != 0 || root == NULL || root->type != YAEP_ANODE
      || strcmp (root->val.anode.name, "plus") != 0)
    return 1;
  yaep_free_tree (root, pf, NULL);
  return 0;
}

static int
scenario (int setting, long k, long *n_allocs)
{
  struct grammar *g1, *g2;
  int rc;

  g1 = yaep_create_grammar ();
  g2 = yaep_create_grammar ();
  if (g1 == NULL || g2 == NULL
      || yaep_parse_grammar (g2, 1, small_descr) != 0 || use_small (g2) != 0)
    return 20;
  if (yaep_error_code (g2) != 0 || *yaep_error_message (g2) != '\0')
    return 20;
  if (setting == 'B')
    {
      yaep_free_grammar (g2);
      g2 = NULL;
    }

  fi_count = 0;
  fi_fail_at = k;
  fi_on = 1;
  rc = yaep_parse_grammar (g1, 1, big_descr);
  fi_on = 0;
  *n_allocs = fi_count;

  if (rc != 0)
    {
      if (rc != YAEP_NO_MEMORY)
	return 21;
      /* the error belongs to g1 ... */
      if (yaep_error_code (g1) != YAEP_NO_MEMORY
	  || *yaep_error_message (g1) == '\0')
	return 22;
    }
  /* (rc == 0 is possible: libc's qsort, used by the description
     reader, has a fallback when its scratch buffer cannot be had.)  */

  /* ... and the other object is unaffected */
  if (g2 != NULL)
    {
      if (yaep_error_code (g2) != 0 || *yaep_error_message (g2) != '\0')
	return 23;
      if (use_small (g2) != 0)
	return 24;
    }
  yaep_free_grammar (g1);
  if (g2 != NULL)
    {
      if (use_small (g2) != 0)
	return 25;
      yaep_free_grammar (g2);
    }
  return 0;
}

int
main (void)
{
  long k, total, dummy;
  int bad = 0, setting;

  make_big_descr ();
  if (scenario ('A', 0, &total) != 0 || scenario ('B', 0, &total) != 0)
    {
      printf ("fault-free run failed\n");
      return 2;
    }
  printf ("yaep_parse_grammar performs %ld allocations\n", total);
  for (setting = 'A'; setting <= 'B'; setting++)
    for (k = 6; k <= total; k++)
      {
	pid_t pid;
	int st;

	fflush (stdout);
	pid = fork ();
	if (pid == 0)
	  _exit (scenario (setting, k, &dummy));
	waitpid (pid, &st, 0);
	if (!WIFEXITED (st) || WEXITSTATUS (st) != 0)
	  {
	    printf ("setting %c, k=%ld: FAILED (wait status 0x%x)\n",
		    setting, k, st);
	    bad = 1;
	  }
      }
  printf (bad ? "C17 VIOLATED\n" : "C17 holds for all tested k\n");
  return bad;
}
