/* F14 (C13): cost pruning passes a discarded block to parse_free twice (and reads it after the first release).
   S : 'x' 'y' # keep 0 (0) | 'x' 'y' # p1 5 (0 1) | 'x' 'y' # p2 6 (0 1); input x y; cost flag; all parses; caller's alloc/free. */
#include "common.h"
#define MAXB 4096
static void *blk[MAXB]; static int st[MAXB], nb, bad;
static void *my_alloc (int n) { void *p = malloc (n); blk[nb] = p; st[nb++] = 1; return p; }
static void my_free (void *p) { int i; for (i = 0; i < nb; i++) if (blk[i] == p) { if (st[i] != 1) { bad++; return; } st[i] = 2; return; } bad += 100; }
int main (void)
{
  struct grammar *g = yaep_create_grammar (); struct yaep_tree_node *root; int amb; int t[] = {'x', 'y'}; int i, live = 0;
  CHECK (yaep_parse_grammar (g, 1, "S : 'x' 'y' # keep 0 (0) | 'x' 'y' # p1 5 (0 1) | 'x' 'y' # p2 6 (0 1) ;\n") == 0, "define");
  yaep_set_one_parse_flag (g, 0); yaep_set_cost_flag (g, 1);
  g_toks = t; g_ntok = 2; g_pos = 0;
  CHECK (yaep_parse (g, rd_tok, on_err, my_alloc, my_free, &root, &amb) == 0 && root != NULL, "parse");
  CHECK (bad == 0, "a block was passed to parse_free twice or was not from parse_alloc");
  yaep_free_tree (root, my_free, NULL);
  CHECK (bad == 0, "yaep_free_tree released a block twice");
  for (i = 0; i < nb; i++) if (st[i] == 1) live++;
  CHECK (live == 0, "blocks of this parse were never released");
  for (i = 0; i < nb; i++) free (blk[i]);
  yaep_free_grammar (g);
  puts ("ok"); return 0;
}
