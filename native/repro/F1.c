/* F1 (C14): create,define,parse,free; create,free -> parser list freed twice. */
#include "common.h"
int main (void)
{
  struct grammar *g = yaep_create_grammar (); struct yaep_tree_node *root; int amb;
  int t[] = {'a'};
  CHECK (yaep_parse_grammar (g, 1, "TERM;\nS : 'a' S | ;\n") == 0, "define");
  CHECK (parse_codes (g, t, 1, &root, &amb) == 0, "parse");
  yaep_free_tree (root, NULL, NULL);
  /* second parse on the same object: first list must not leak (F1b; LeakSanitizer) */
  CHECK (parse_codes (g, t, 1, &root, &amb) == 0, "parse2");
  yaep_free_tree (root, NULL, NULL);
  yaep_free_grammar (g);
  g = yaep_create_grammar ();
  yaep_free_grammar (g);
  puts ("ok"); return 0;
}
