/* C19 / m2: object stack -- finished objects never change, the top object holds
   exactly the bytes appended, whatever the segment sizes are.
   A deterministic bump allocator is plugged in through the public allocator API
   so that the memory layout (and therefore the verdict) does not depend on libc.
   Exit 0 = all contents as expected. */
#include <stdio.h>
#include <stdlib.h>
#include <string.h>
#include "allocate.h"
#include "objstack.h"

static _Alignas (16) char arena[1 << 16];
static size_t arena_used;

static void *a_malloc (size_t n)
{
  void *p;
  n = (n + 15) & ~(size_t) 15;
  if (arena_used + n > sizeof arena) return NULL;
  p = arena + arena_used;
  arena_used += n;
  return p;
}
static void *a_calloc (size_t n, size_t m)
{ void *p = a_malloc (n * m); if (p) memset (p, 0, n * m); return p; }
static void *a_realloc (void *old, size_t n)
{ void *p = a_malloc (n); if (p && old) memmove (p, old, n); return p; }
static void a_free (void *p) { (void) p; }

int main (void)
{
  YaepAllocator *a = yaep_alloc_new (a_malloc, a_calloc, a_realloc, a_free);
  os_t os1, os2;
  char v[32], x[40];
  const char *obj1, *obj2;
  int i;

  memset (v, 'V', sizeof v);
  memset (x, 'x', sizeof x);

  /* stack 1: a segment whose length (13) is not a multiple of the alignment */
  OS_CREATE (os1, a, 13);
  /* stack 2: one finished 32-byte object */
  OS_CREATE (os2, a, 32);
  OS_TOP_ADD_MEMORY (os2, v, sizeof v);
  obj2 = OS_TOP_BEGIN (os2);
  OS_TOP_FINISH (os2);

  /* stack 1: fill the first segment exactly, finish, then grow a new top
     object one byte at a time */
  OS_TOP_ADD_MEMORY (os1, "ABCDEFGHIJKLM", 13);
  obj1 = OS_TOP_BEGIN (os1);
  OS_TOP_FINISH (os1);
  for (i = 0; i < 40; i++)
    OS_TOP_ADD_BYTE (os1, 'x');

  if (OS_TOP_LENGTH (os1) != 40 || memcmp (OS_TOP_BEGIN (os1), x, 40) != 0)
    { fprintf (stderr, "top object of stack 1 wrong\n"); return 1; }
  if (memcmp (obj1, "ABCDEFGHIJKLM", 13) != 0)
    { fprintf (stderr, "finished object of stack 1 altered\n"); return 2; }
  if (memcmp (obj2, v, sizeof v) != 0)
    { fprintf (stderr, "finished object of stack 2 altered\n"); return 3; }
  OS_DELETE (os1);
  OS_DELETE (os2);
  yaep_alloc_del (a);
  puts ("ok");
  return 0;
}
