/* F9 (C12/C11): long digit string in a description: signed overflow in the lexer. */
#include "common.h"
int main (void)
{
  struct grammar *g = yaep_create_grammar (); int rc;
  rc = yaep_parse_grammar (g, 1, "TERM A = 99999999999999999999;\nS : A ;\n");
  CHECK (rc != 0, "number that does not fit int accepted");
  CHECK (yaep_error_code (g) == rc, "code");
  yaep_free_grammar (g);
  puts ("ok"); return 0;
}
