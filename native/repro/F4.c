/* F4a/F4b (C14): definition state after failed (re)definition. */
#include "common.h"
int main (void)
{
  struct grammar *g = yaep_create_grammar (); struct yaep_tree_node *root; int amb; int t[] = {'a'};
  CHECK (yaep_parse_grammar (g, 1, "S : 'a' ;\n") == 0, "define");
  CHECK (yaep_parse_grammar (g, 1, "S : S ;\n") != 0, "bad redefinition accepted");
  CHECK (parse_codes (g, t, 1, &root, &amb) == YAEP_UNDEFINED_OR_BAD_GRAMMAR, "F4a: parse runs after failed redefinition");
  CHECK (yaep_parse_grammar (g, 1, "S : 'a' ;\n") == 0, "F4b: good definition after failed one rejected");
  CHECK (parse_codes (g, t, 1, &root, &amb) == 0 && root != NULL, "parse after recovery");
  yaep_free_tree (root, NULL, NULL);
  yaep_free_grammar (g);
  g = yaep_create_grammar ();
  CHECK (yaep_parse_grammar (g, 1, "S : S ;\n") != 0, "bad first definition accepted");
  CHECK (yaep_parse_grammar (g, 1, "S : 'a' ;\n") == 0, "F4b: good definition after failed first one rejected");
  yaep_free_grammar (g);
  puts ("ok"); return 0;
}
