/* Demo for m1: a comment whose closing delimiter is preceded by an extra
   star, as in the common banner style ending with two stars and a slash,
   is a perfectly ordinary comment of the documented syntax.  The
   description must denote the same grammar as without the comment.
   Also checks the line number reported after a comment containing a line
   that ends with a star, and an unfinished comment whose last character
   is a star (must be a clean syntax error, no read past the text).  */
#include <stdio.h>
#include <stdlib.h>
#include <string.h>
#include "yaep.h"

static const char *input;
static int pos;
static int n_syntax_errors;

static int
read_token (void **attr)
{
  *attr = NULL;
  if (input[pos] == '\0')
    return -1;
  return (unsigned char) input[pos++];
}

static void
syntax_error (int err_tok_num, void *err_tok_attr,
	      int start_ignored_tok_num, void *start_ignored_tok_attr,
	      int start_recovered_tok_num, void *start_recovered_tok_attr)
{
  n_syntax_errors++;
}

static int
accepts (const char *descr, const char *in)
{
  struct grammar *g = yaep_create_grammar ();
  struct yaep_tree_node *root = NULL;
  int ambiguous_p, code;

  if (g == NULL)
    exit (100);
  code = yaep_parse_grammar (g, 1, descr);
  if (code != 0)
    {
      fprintf (stderr, "yaep_parse_grammar: %d: %s\n", code,
	       yaep_error_message (g));
      yaep_free_grammar (g);
      return 0;
    }
  input = in;
  pos = 0;
  n_syntax_errors = 0;
  yaep_set_error_recovery_flag (g, 0);
  code = yaep_parse (g, read_token, syntax_error, NULL, NULL, &root,
		     &ambiguous_p);
  if (root != NULL)
    yaep_free_tree (root, NULL, NULL);
  yaep_free_grammar (g);
  return code == 0 && n_syntax_errors == 0;
}

int
main (void)
{
  int fail = 0;

  /* 1. banner comment closed by two stars and a slash.  */
  if (!accepts ("/** grammar of a single letter **/\n"
		"TERM;\n" "S : 'a' # 0\n" "  ;\n", "a"))
    {
      fprintf (stderr, "FAIL 1: banner comment broke the description\n");
      fail = 1;
    }
  /* The same grammar, with the comment written in the plain style, as a
     control.  */
  if (!accepts ("/* grammar of a single letter */\n"
		"TERM;\n" "S : 'a' # 0\n" "  ;\n", "a"))
    {
      fprintf (stderr, "FAIL 1c: control failed\n");
      fail = 1;
    }

  /* 2. line number after a boxed comment: error is on line 5.  */
  {
    struct grammar *g = yaep_create_grammar ();
    int code = yaep_parse_grammar (g, 1,
				   "/*\n" " * boxed *\n" " */\n"
				   "S : 'a' ;\n" "@\n");
    if (code != YAEP_DESCRIPTION_SYNTAX_ERROR_CODE
	|| strstr (yaep_error_message (g), "ln 5") == NULL)
      {
	fprintf (stderr, "FAIL 2: code %d, message: %s\n", code,
		 yaep_error_message (g));
	fail = 1;
      }
    yaep_free_grammar (g);
  }

  /* 3. unfinished comment ending in a star, in an exactly sized heap
     buffer so that a sanitizer sees any read past the terminator.  */
  {
    static const char text[] = "S : 'a' ;\n/* unfinished *";
    char *buf = malloc (sizeof (text));
    struct grammar *g = yaep_create_grammar ();
    int code;

    memcpy (buf, text, sizeof (text));
    code = yaep_parse_grammar (g, 1, buf);
    if (code != YAEP_DESCRIPTION_SYNTAX_ERROR_CODE)
      {
	fprintf (stderr, "FAIL 3: code %d\n", code);
	fail = 1;
      }
    yaep_free_grammar (g);
    free (buf);
  }
  if (!fail)
    printf ("ok\n");
  return fail;
}
