/* F28 (C10): the reserved names `$eof' and `$S' used inside a rule (right-hand side, or `$S' as a later left-hand side) are accepted. */
#include "common.h"
static int k1, r1, mode;
static const char *rt (int *code) { if (k1++) return NULL; *code = 1; return "a"; }
static const char *rhs_a[] = {"a", NULL}, *rhs_eof[] = {"a", "$eof", NULL}, *rhs_S[] = {"a", "$S", NULL}; static int tr0[] = {-1};
static const char *rr (const char ***rhs, const char **an, int *cost, int **tr)
{ *an = NULL; *cost = 0; *tr = tr0;
  if (mode == 0) { if (r1++) return NULL; *rhs = rhs_eof; return "S"; }
  if (mode == 1) { if (r1++) return NULL; *rhs = rhs_S; return "S"; }
  if (r1 == 0) { r1++; *rhs = rhs_a; return "S"; } if (r1 == 1) { r1++; *rhs = rhs_a; return "$S"; } return NULL; }
int main (void)
{
  for (mode = 0; mode < 3; mode++)
    { struct grammar *g = yaep_create_grammar (); int rc; k1 = r1 = 0;
      rc = yaep_read_grammar (g, 0, rt, rr);
      CHECK (rc == YAEP_FIXED_NAME_USAGE, mode == 0 ? "`$eof' in a right-hand side is accepted" : mode == 1 ? "`$S' in a right-hand side is accepted" : "`$S' as left-hand side of a later rule is accepted");
      yaep_free_grammar (g); }
  puts ("ok"); return 0;
}
