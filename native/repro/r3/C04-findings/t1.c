#include "check.h"
static int oc (const char *n) { switch (n[0]) { case 'A': return 1; case 'P': return 5; case 'Q': return 2; case 'R': return 7; default: return 0; } }
int main (int argc, char **argv)
{
  own_cost = oc;
  const char *d =
    "S : B C D # A 1 (0 1 2)\n ;\n"
    "B : 'b' # X 0 (0)\n | 'b' 'b' # Y 0 (0 1)\n ;\n"
    "C : 'b' # V 0 (0)\n | 'b' 'b' # W 0 (0 1)\n ;\n"
    "D : 'd' # P 5 (0)\n | 'd' # Q 2 (0)\n | 'd' # R 7 (0)\n ;\n";
  int bad = check (d, argc > 1 ? argv[1] : "bbbd", 1);
  fprintf (stderr, "violations: %d\n", bad);
  return bad != 0;
}
