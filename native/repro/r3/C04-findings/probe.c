#include <stdio.h>
#include <stdlib.h>
#include "yaep.h"
void *__real_malloc (size_t);
static long cnt, fail_at = -1;
void *__wrap_malloc (size_t n) { if (fail_at >= 0 && cnt++ == fail_at) return NULL; return __real_malloc (n); }
static const char *d = "E : E '+' E # plus 1 (0 2)\n | 'a' # 0\n ;\n";
static const char *in = "a+a+a"; static int nt;
static int rd (void **a) { *a = NULL; return in[nt] ? in[nt++] : -1; }
static void se (int a, void *b, int c, void *d2, int e, void *f) {}
int main (void)
{
  for (long n = 0; n < 400; n++)
    {
      struct grammar *g = yaep_create_grammar (); struct yaep_tree_node *r; int amb;
      yaep_set_cost_flag (g, 1); yaep_set_one_parse_flag (g, 1);
      if (yaep_parse_grammar (g, 1, d)) return 2;
      nt = 0; cnt = 0; fail_at = n;
      int rc = yaep_parse (g, rd, se, NULL, NULL, &r, &amb);
      fail_at = -1;
      if (rc == 0) { printf ("n=%ld: parse succeeded, stop\n", n); break; }
      nt = 0;
      rc = yaep_parse (g, rd, se, NULL, NULL, &r, &amb);
      int old = yaep_set_one_parse_flag (g, 1);
      if (rc == 0 && (old != 1 || r->type == YAEP_ALT))
	printf ("n=%ld: after failed parse one_parse flag reads %d, root type %d (ALT=%d)\n", n, old, r->type, YAEP_ALT);
    }
  return 0;
}
