/* Scratch checker: enumerates translations of a yaep parse DAG. */
#include <assert.h>
#include <stdio.h>
#include <stdlib.h>
#include <string.h>
#include "yaep.h"

static const char *g_input;
static int g_ntok;
static int rd_tok (void **attr) { *attr = NULL; return g_input[g_ntok] ? g_input[g_ntok++] : -1; }
static void syn_err (int a, void *b, int c, void *d, int e, void *f) { (void)a;(void)b;(void)c;(void)d;(void)e;(void)f; }
static void *p_alloc (int n) { void *p = malloc (n); assert (p); return p; }
static void p_free (void *p) { free (p); }

/* A set of (string, cost) pairs. */
struct tr { char *s; int cost; };
struct trset { struct tr *v; int n; };

static void ts_add (struct trset *t, const char *s, int cost)
{
  int i;
  for (i = 0; i < t->n; i++)
    if (strcmp (t->v[i].s, s) == 0 && t->v[i].cost == cost) return;
  t->v = realloc (t->v, (t->n + 1) * sizeof *t->v);
  t->v[t->n].s = strdup (s); t->v[t->n].cost = cost; t->n++;
}

/* own_cost: cost of the rule by anode name (first char lookup table supplied by user) */
static int (*own_cost) (const char *name);

static struct trset enumerate (struct yaep_tree_node *n);

static void cross (struct yaep_tree_node **ch, int i, char *pref, int cost, struct trset *out)
{
  if (ch[i] == NULL)
    {
      char buf[4096];
      snprintf (buf, sizeof buf, "%s)", pref);
      ts_add (out, buf, cost);
      return;
    }
  struct trset sub = enumerate (ch[i]);
  for (int k = 0; k < sub.n; k++)
    {
      char buf[4096];
      snprintf (buf, sizeof buf, "%s %s", pref, sub.v[k].s);
      cross (ch, i + 1, buf, cost + sub.v[k].cost, out);
    }
}

static struct trset enumerate (struct yaep_tree_node *n)
{
  struct trset r = { NULL, 0 };
  char buf[64];
  switch (n->type)
    {
    case YAEP_NIL: ts_add (&r, "nil", 0); break;
    case YAEP_ERROR: ts_add (&r, "err", 0); break;
    case YAEP_TERM: snprintf (buf, sizeof buf, "%c", n->val.term.code); ts_add (&r, buf, 0); break;
    case YAEP_ANODE:
      snprintf (buf, sizeof buf, "%s(", n->val.anode.name);
      cross (n->val.anode.children, 0, buf, own_cost (n->val.anode.name), &r);
      break;
    case YAEP_ALT:
      for (; n != NULL; n = n->val.alt.next)
	{
	  assert (n->type == YAEP_ALT);
	  struct trset s = enumerate (n->val.alt.node);
	  for (int k = 0; k < s.n; k++) ts_add (&r, s.v[k].s, s.v[k].cost);
	}
      break;
    default: assert (0);
    }
  return r;
}

/* Check cost fields: each anode cost == own + sum children subtree cost
   (for ALT child: the common cost of its alternatives).  Returns subtree cost or -1000000 on error. */
static int bad_fields;
static int field_cost (struct yaep_tree_node *n)
{
  switch (n->type)
    {
    case YAEP_NIL: case YAEP_ERROR: case YAEP_TERM: return 0;
    case YAEP_ANODE:
      {
	int c = own_cost (n->val.anode.name);
	for (int i = 0; n->val.anode.children[i]; i++) c += field_cost (n->val.anode.children[i]);
	if (c != n->val.anode.cost) { fprintf (stderr, "field mismatch at %s: field %d expected %d\n", n->val.anode.name, n->val.anode.cost, c); bad_fields++; }
	return n->val.anode.cost;
      }
    case YAEP_ALT:
      {
	int c = field_cost (n->val.alt.node);
	for (struct yaep_tree_node *a = n->val.alt.next; a; a = a->val.alt.next)
	  if (field_cost (a->val.alt.node) != c) { fprintf (stderr, "alt cost mismatch\n"); bad_fields++; }
	return c;
      }
    default: assert (0);
    }
  return 0;
}

static struct yaep_tree_node *run (const char *descr, const char *input, int one, int costf, int la, int use_free, int *amb)
{
  struct grammar *g = yaep_create_grammar ();
  struct yaep_tree_node *root;
  assert (g);
  yaep_set_one_parse_flag (g, one);
  yaep_set_cost_flag (g, costf);
  yaep_set_lookahead_level (g, la);
  yaep_set_error_recovery_flag (g, 0);
  if (yaep_parse_grammar (g, 1, descr) != 0) { fprintf (stderr, "%s\n", yaep_error_message (g)); exit (2); }
  g_input = input; g_ntok = 0;
  if (yaep_parse (g, rd_tok, syn_err, p_alloc, use_free ? p_free : NULL, &root, amb)) { fprintf (stderr, "%s\n", yaep_error_message (g)); exit (2); }
  yaep_free_grammar (g);
  return root;
}

/* returns number of violations */
static int check (const char *descr, const char *input, int verbose)
{
  int amb, bad = 0;
  struct yaep_tree_node *all = run (descr, input, 0, 0, 1, 0, &amb);
  if (!all) { fprintf (stderr, "no parse\n"); return 0; }
  struct trset T = enumerate (all);
  int min = 1 << 30, nmin = 0;
  for (int i = 0; i < T.n; i++) if (T.v[i].cost < min) min = T.v[i].cost;
  for (int i = 0; i < T.n; i++) if (T.v[i].cost == min) nmin++;
  if (verbose) { fprintf (stderr, "all translations (%d), min %d (x%d):\n", T.n, min, nmin); for (int i = 0; i < T.n; i++) fprintf (stderr, "  %d %s\n", T.v[i].cost, T.v[i].s); }
  for (int la = 0; la <= 2; la++)
    for (int one = 0; one <= 1; one++)
      for (int fr = 0; fr <= 1; fr++)
	{
	  struct yaep_tree_node *r = run (descr, input, one, 1, la, fr, &amb);
	  struct trset R = enumerate (r);
	  bad_fields = 0;
	  int rc = field_cost (r);
	  int b = bad_fields;
	  if (rc != min) { fprintf (stderr, "[la%d one%d fr%d] root cost %d != min %d\n", la, one, fr, rc, min); b++; }
	  for (int i = 0; i < R.n; i++) if (R.v[i].cost != min) { fprintf (stderr, "[la%d one%d fr%d] non-minimal translation %d %s\n", la, one, fr, R.v[i].cost, R.v[i].s); b++; }
	  for (int i = 0; i < R.n; i++) { int f = 0; for (int j = 0; j < T.n; j++) if (!strcmp (T.v[j].s, R.v[i].s)) f = 1; if (!f) { fprintf (stderr, "[la%d one%d fr%d] alien translation %s\n", la, one, fr, R.v[i].s); b++; } }
	  if (one && R.n != 1) { fprintf (stderr, "[la%d one%d fr%d] %d translations for one parse\n", la, one, fr, R.n); b++; }
	  if (!one && R.n != nmin) { fprintf (stderr, "[la%d one%d fr%d] %d translations, expected %d minimal\n", la, one, fr, R.n, nmin); b++; }
	  bad += b;
	}
  return bad;
}
