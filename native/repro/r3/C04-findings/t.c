#include "check.h"
/* convention: anode name = letters followed by digits giving its cost */
static int oc (const char *n) { while (*n && (*n < '0' || *n > '9')) n++; return atoi (n); }
int main (int argc, char **argv)
{
  own_cost = oc;
  static char d[65536];
  FILE *f = fopen (argv[1], "r"); size_t n = fread (d, 1, sizeof d - 1, f); d[n] = 0; fclose (f);
  int bad = check (d, argv[2], 1);
  fprintf (stderr, "violations: %d\n", bad);
  return bad != 0;
}
