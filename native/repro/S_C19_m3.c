/* C19 / m3: a VLO holds exactly the bytes appended, wherever it is reallocated
   (here: a realloc() that always moves the block, as e.g. ASan's does).
   A deterministic downward-growing bump allocator is plugged in through the
   public allocator API so the verdict does not depend on libc's heap layout.
   Exit 0 = all contents as expected. */
#include <stdio.h>
#include <stdlib.h>
#include <string.h>
#include "allocate.h"
#include "vlobject.h"

#define ARENA (1 << 16)
#define PAD 4096		/* slack above the first block so realloc's copy stays in the arena */
static _Alignas (16) char arena[ARENA];
static size_t arena_used = PAD;

static void *a_malloc (size_t n)
{
  n = (n + 15) & ~(size_t) 15;
  if (n == 0) n = 16;
  if (arena_used + n > ARENA) return NULL;
  arena_used += n;
  return arena + ARENA - arena_used;	/* each new block lies below the previous one */
}
static void *a_calloc (size_t n, size_t m)
{ void *p = a_malloc (n * m); if (p) memset (p, 0, n * m); return p; }
static void *a_realloc (void *old, size_t n)	/* always moves */
{ void *p = a_malloc (n); if (p && old) memmove (p, old, n < PAD ? n : PAD); return p; }
static void a_free (void *p) { (void) p; }

int main (void)
{
  YaepAllocator *a = yaep_alloc_new (a_malloc, a_calloc, a_realloc, a_free);
  vlo_t v, w;
  char wexp[32], vexp[40];

  memset (wexp, 'W', sizeof wexp);
  memcpy (vexp, "0123456789", 10);
  memset (vexp + 10, 'y', 30);

  VLO_CREATE (v, a, 64);
  VLO_CREATE (w, a, 32);
  VLO_ADD_MEMORY (w, wexp, sizeof wexp);

  VLO_ADD_MEMORY (v, "0123456789", 10);
  VLO_TAILOR (v);		/* shrink allocation to 10 bytes; block moves */
  if (VLO_LENGTH (v) != 10 || memcmp (VLO_BEGIN (v), vexp, 10) != 0)
    { fprintf (stderr, "v wrong right after tailor\n"); return 1; }
  VLO_ADD_MEMORY (v, vexp + 10, 30);	/* must grow the allocation again */

  if (VLO_LENGTH (v) != 40 || memcmp (VLO_BEGIN (v), vexp, 40) != 0)
    { fprintf (stderr, "v does not hold the appended bytes\n"); return 2; }
  if (VLO_LENGTH (w) != 32 || memcmp (VLO_BEGIN (w), wexp, 32) != 0)
    { fprintf (stderr, "unrelated VLO w was overwritten\n"); return 3; }
  VLO_DELETE (v);
  VLO_DELETE (w);
  yaep_alloc_del (a);
  puts ("ok");
  return 0;
}
