/* F21 (C12): a grammar with 64 or more terminals: term_set_up shifts 1L by 63 (signed overflow). */
#include "common.h"
int main (void)
{
  char d[4096]; int i, n = 0; struct grammar *g = yaep_create_grammar (); struct yaep_tree_node *root; int amb; int t[] = {256 + 63};
  n += sprintf (d + n, "TERM");
  for (i = 0; i < 70; i++) n += sprintf (d + n, " t%d", i);
  n += sprintf (d + n, ";\nS :");
  for (i = 0; i < 70; i++) n += sprintf (d + n, "%s t%d", i ? " |" : "", i);
  n += sprintf (d + n, " ;\n");
  CHECK (yaep_parse_grammar (g, 1, d) == 0, "define");
  CHECK (parse_codes (g, t, 1, &root, &amb) == 0 && root != NULL && g_nerr == 0, "parse");
  yaep_free_tree (root, NULL, NULL); yaep_free_grammar (g);
  puts ("ok"); return 0;
}
