/* F25 (C14/C17): repeated failing parses on one object leak the token array of every parse but one (LeakSanitizer at exit). */
#include "common.h"
int main (void)
{
  struct grammar *g = yaep_create_grammar (); struct yaep_tree_node *root; int amb; int t[] = {'z'}; int i;
  CHECK (yaep_parse_grammar (g, 1, "S : 'a' ;\n") == 0, "define");
  for (i = 0; i < 3; i++)
    CHECK (parse_codes (g, t, 1, &root, &amb) == YAEP_INVALID_TOKEN_CODE, "invalid token code is reported");
  yaep_free_grammar (g);
  puts ("ok"); return 0;
}
