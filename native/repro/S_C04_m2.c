/* Shared checking code for the C04 demonstrations.  Each m<k>_demo.c
   contains a verbatim copy of this text (the demos are single files). */

#include <stdio.h>
#include <stdlib.h>
#include <string.h>
#include "yaep.h"

/* The tracking allocator below never really frees (so that stale references
   can be diagnosed), hence leak checking is switched off. */
const char *__asan_default_options (void) { return "detect_leaks=0"; }

/* ---- tracking allocator: memory is pre-filled with FILL, frees are only
   recorded (so that a use of a freed node is detected deterministically). */
#define MAXBLK 4096
static struct { char *p; int size; int freed; } blk[MAXBLK];
static int nblk;
static int fill_byte = 0;

static void *
t_alloc (int size)
{
  char *p = malloc (size);
  if (p == NULL || nblk >= MAXBLK)
    abort ();
  memset (p, fill_byte, size);
  blk[nblk].p = p; blk[nblk].size = size; blk[nblk].freed = 0; nblk++;
  return p;
}

static int n_bad_free;

static void
t_free (void *m)
{
  int i;
  for (i = nblk - 1; i >= 0; i--)
    if (blk[i].p == (char *) m)
      {
	if (blk[i].freed)
	  n_bad_free++;		/* double free */
	blk[i].freed = 1;
	return;
      }
  n_bad_free++;			/* foreign pointer */
}

static int
is_freed (const void *m)
{
  int i;
  for (i = nblk - 1; i >= 0; i--)
    if ((char *) m >= blk[i].p && (char *) m < blk[i].p + blk[i].size)
      return blk[i].freed;
  return 0;
}

/* ---- token source */
static const char *the_input;
static int the_pos;
static int
t_read (void **attr)
{
  *attr = NULL;
  return the_input[the_pos] ? the_input[the_pos++] : -1;
}

static void
t_err (int a, void *b, int c, void *d, int e, void *f)
{
  (void) a; (void) b; (void) c; (void) d; (void) e; (void) f;
}

/* ---- rule costs by abstract node name */
struct ncost { const char *name; int cost; };
static const struct ncost *the_costs;

static int
own_cost (const char *name)
{
  const struct ncost *c;
  for (c = the_costs; c->name != NULL; c++)
    if (strcmp (c->name, name) == 0)
      return c->cost;
  fprintf (stderr, "unknown anode %s\n", name);
  exit (2);
}

/* ---- enumeration of the translations denoted by a DAG */
struct tr { char *s; int cost; };
struct trl { struct tr *v; int n; };

static int failures;
#define FAIL(...) do { fprintf (stderr, "FAIL: " __VA_ARGS__); fprintf (stderr, "\n"); failures++; } while (0)

static void
trl_add (struct trl *l, const char *s, int cost)
{
  if (l->n > 2000) { fprintf (stderr, "too many translations\n"); exit (1); }
  l->v = realloc (l->v, (l->n + 1) * sizeof (struct tr));
  l->v[l->n].s = strdup (s);
  l->v[l->n].cost = cost;
  l->n++;
}

static int depth;

/* FIELD receives the "cost field" value of NODE as seen by a parent: the
   cost of an anode, 0 for leaves, the (common) value of the alternatives
   for an alt list. */
static struct trl
enumerate (struct yaep_tree_node *node, int cost_flag, int *field)
{
  struct trl res = { NULL, 0 };
  char buf[4096];

  if (++depth > 200) { FAIL ("cyclic or too deep result"); exit (1); }
  if (is_freed (node))
    {
      FAIL ("result refers to a node that was passed to parse_free");
      exit (1);
    }
  switch (node->type)
    {
    case YAEP_NIL:
      trl_add (&res, "nil", 0); *field = 0; break;
    case YAEP_ERROR:
      trl_add (&res, "error", 0); *field = 0; break;
    case YAEP_TERM:
      sprintf (buf, "%c", node->val.term.code);
      trl_add (&res, buf, 0); *field = 0; break;
    case YAEP_ANODE:
      {
	struct trl acc = { NULL, 0 }, nxt, sub;
	int i, j, k, f, sum;

	if (is_freed (node->val.anode.name))
	  { FAIL ("anode name was passed to parse_free"); exit (1); }
	sum = own_cost (node->val.anode.name);
	sprintf (buf, "%s(", node->val.anode.name);
	trl_add (&acc, buf, sum);
	for (i = 0; node->val.anode.children[i] != NULL; i++)
	  {
	    sub = enumerate (node->val.anode.children[i], cost_flag, &f);
	    sum += f;
	    nxt.v = NULL; nxt.n = 0;
	    for (j = 0; j < acc.n; j++)
	      for (k = 0; k < sub.n; k++)
		{
		  snprintf (buf, sizeof buf, "%s%s%s", acc.v[j].s,
			    i ? " " : "", sub.v[k].s);
		  trl_add (&nxt, buf, acc.v[j].cost + sub.v[k].cost);
		}
	    acc = nxt;
	  }
	for (j = 0; j < acc.n; j++)
	  {
	    snprintf (buf, sizeof buf, "%s)", acc.v[j].s);
	    trl_add (&res, buf, acc.v[j].cost);
	  }
	*field = node->val.anode.cost;
	if (cost_flag && node->val.anode.cost != sum)
	  FAIL ("anode %s: cost field %d != own cost + children cost fields = %d",
		node->val.anode.name, node->val.anode.cost, sum);
	if (!cost_flag
	    && node->val.anode.cost != own_cost (node->val.anode.name))
	  FAIL ("anode %s: cost field %d != rule cost %d (no cost flag)",
		node->val.anode.name, node->val.anode.cost,
		own_cost (node->val.anode.name));
	break;
      }
    case YAEP_ALT:
      {
	struct yaep_tree_node *alt;
	struct trl sub;
	int k, f, first = 1;

	for (alt = node; alt != NULL; alt = alt->val.alt.next)
	  {
	    if (is_freed (alt))
	      { FAIL ("alt node was passed to parse_free"); exit (1); }
	    if (alt->type != YAEP_ALT || alt->val.alt.node->type == YAEP_ALT)
	      { FAIL ("malformed alternative list"); exit (1); }
	    sub = enumerate (alt->val.alt.node, cost_flag, &f);
	    for (k = 0; k < sub.n; k++)
	      trl_add (&res, sub.v[k].s, sub.v[k].cost);
	    if (first)
	      *field = f;
	    else if (cost_flag && f != *field)
	      FAIL ("alternatives with different cost fields %d and %d",
		    *field, f);
	    first = 0;
	  }
	break;
      }
    default:
      FAIL ("bad node type %d", (int) node->type);
      exit (1);
    }
  depth--;
  return res;
}

static int
cmp_tr (const void *a, const void *b)
{
  return strcmp (((const struct tr *) a)->s, ((const struct tr *) b)->s);
}

/* Parse INPUT with grammar G and check the result against EXPECTED (a
   NULL-terminated list of translations, all of which must cost MIN_COST
   when COST_FLAG is set).  With ONE_PARSE the result must denote exactly one
   translation, which must be a member of EXPECTED; otherwise it must denote
   exactly the members of EXPECTED. */
static void
parse_and_check (struct grammar *g, const char *input, int cost_flag,
		 int one_parse, int use_free, const char **expected,
		 int min_cost, const char *what)
{
  struct yaep_tree_node *root;
  struct trl l;
  int amb, rc, i, j, n_exp, field;

  the_input = input; the_pos = 0;
  rc = yaep_parse (g, t_read, t_err, t_alloc, use_free ? t_free : NULL,
		   &root, &amb);
  if (rc != 0 || root == NULL)
    { FAIL ("%s: yaep_parse failed: %s", what, yaep_error_message (g)); return; }
  depth = 0;
  l = enumerate (root, cost_flag, &field);
  qsort (l.v, l.n, sizeof (struct tr), cmp_tr);
  for (n_exp = 0; expected[n_exp] != NULL; n_exp++)
    ;
  fprintf (stderr, "%s: %d translation(s):\n", what, l.n);
  for (i = 0; i < l.n; i++)
    fprintf (stderr, "   %s  cost %d\n", l.v[i].s, l.v[i].cost);
  for (i = 0; i < l.n; i++)
    {
      for (j = 0; j < n_exp; j++)
	if (strcmp (expected[j], l.v[i].s) == 0)
	  break;
      if (j == n_exp)
	FAIL ("%s: unexpected translation %s", what, l.v[i].s);
      if (i > 0 && strcmp (l.v[i].s, l.v[i - 1].s) == 0)
	FAIL ("%s: duplicate translation %s", what, l.v[i].s);
      if (cost_flag && l.v[i].cost != min_cost)
	FAIL ("%s: translation %s costs %d, minimum is %d", what, l.v[i].s,
	      l.v[i].cost, min_cost);
    }
  if (one_parse && l.n != 1)
    FAIL ("%s: one parse requested, %d translations denoted", what, l.n);
  if (!one_parse && l.n != n_exp)
    FAIL ("%s: %d translations denoted, %d expected", what, l.n, n_exp);
  if (cost_flag && root->type == YAEP_ANODE
      && root->val.anode.cost != min_cost)
    FAIL ("%s: root cost field %d, minimum is %d", what,
	  root->val.anode.cost, min_cost);
  if (n_bad_free)
    FAIL ("%s: %d bad parse_free calls", what, n_bad_free);
  n_bad_free = 0;
}

static struct grammar *
make_grammar (const char *descr, int cost_flag, int one_parse, int la)
{
  struct grammar *g = yaep_create_grammar ();
  if (g == NULL)
    exit (2);
  yaep_set_cost_flag (g, cost_flag);
  yaep_set_one_parse_flag (g, one_parse);
  yaep_set_lookahead_level (g, la);
  yaep_set_error_recovery_flag (g, 0);
  if (yaep_parse_grammar (g, 1, descr) != 0)
    {
      fprintf (stderr, "grammar: %s\n", yaep_error_message (g));
      exit (2);
    }
  return g;
}

/* ======================= demonstration 2 ==============================
   A rule whose abstract node has to be duplicated while the parse DAG is
   being built (the same rule instance continues from two different origins:
   E : E '+' E on "a+a+a"), with parse_alloc memory that is not already
   equal to the rule cost (here: zero-filled, as from calloc).  */

static const char *descr =
  "E : E '+' E   # plus 1 (0 2)\n"
  "  | 'a'       # 0\n"
  "  ;\n";
static const struct ncost costs[] = { {"plus", 1}, {NULL, 0} };
static const char *exp_all[] =
  { "plus(a plus(a a))", "plus(plus(a a) a)", NULL };

int
main (void)
{
  int cf, one, la, fr;
  char w[64];
  struct grammar *g;

  the_costs = costs;
  fill_byte = 0;
  for (cf = 0; cf < 2; cf++)
    for (one = 0; one < 2; one++)
      for (la = 0; la < 3; la++)
	for (fr = 0; fr < 2; fr++)
	  {
	    sprintf (w, "cost=%d one=%d la=%d free=%d", cf, one, la, fr);
	    g = make_grammar (descr, cf, one, la);
	    parse_and_check (g, "a+a+a", cf, one, fr, exp_all, 2, w);
	    yaep_free_grammar (g);
	  }
  fprintf (stderr, "%d failure(s)\n", failures);
  return failures != 0;
}
