/* F13 (C04): cost flag with abstract nodes shared between alternatives.
   E : E '+' E # plus 1 (0 2) | 'a' # 0 ; input a+a+a+a ; cost flag, all parses:
   every translation has 3 `plus' nodes, so all 5 are minimal with cost 3 and every node's cost field is own + children. */
#include "common.h"
static long count_trees (struct yaep_tree_node *n);
static long count_alts (struct yaep_tree_node *n) { long s = 0; for (; n != NULL; n = n->val.alt.next) s += count_trees (n->val.alt.node); return s; }
static long count_trees (struct yaep_tree_node *n)
{
  long p = 1; struct yaep_tree_node **c;
  switch (n->type) {
  case YAEP_ALT: return count_alts (n);
  case YAEP_ANODE: for (c = n->val.anode.children; *c != NULL; c++) p *= count_trees (*c); return p;
  default: return 1; }
}
static int bad_cost;
static int min_cost (struct yaep_tree_node *n)
{
  int s, m = -1; struct yaep_tree_node **c;
  switch (n->type) {
  case YAEP_ALT: for (; n != NULL; n = n->val.alt.next) { s = min_cost (n->val.alt.node); if (m < 0 || s < m) m = s; } return m;
  case YAEP_ANODE: s = 1; for (c = n->val.anode.children; *c != NULL; c++) s += min_cost (*c);
    if (n->val.anode.cost != s) bad_cost++; return s;
  default: return 0; }
}
int main (void)
{
  struct grammar *g = yaep_create_grammar (); struct yaep_tree_node *root; int amb; int t[] = {'a','+','a','+','a','+','a'}; long n; int c;
  CHECK (yaep_parse_grammar (g, 1, "E : E '+' E # plus 1 (0 2) | 'a' # 0 ;\n") == 0, "define");
  yaep_set_one_parse_flag (g, 0); yaep_set_cost_flag (g, 1);
  CHECK (parse_codes (g, t, 7, &root, &amb) == 0 && root != NULL && amb, "parse");
  n = count_trees (root); c = min_cost (root);
  printf ("trees=%ld root-cost=%d nodes-with-wrong-cost=%d\n", n, c, bad_cost);
  CHECK (n == 5, "not all minimal translations are denoted");
  CHECK (c == 3 && bad_cost == 0, "cost fields are not own cost + children");
  yaep_free_tree (root, NULL, NULL); yaep_free_grammar (g);
  puts ("ok"); return 0;
}
