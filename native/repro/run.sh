#!/bin/bash
# run.sh <libdir> <Fx> : compile and run one demonstration against the sanitizer build in <libdir>
L="$1"; F="$2"; D=$(dirname "$0")
clang -g -fsanitize=address,undefined -fno-sanitize-recover=undefined -I"$L" "$D/$F.c" "$L/libyaep_san.a" -o "$L/$F.exe" || exit 3
"$L/$F.exe"
