/* C19 / m1: hash table must keep finding exactly the live elements through
   insert/remove churn.  Exits 0 when the table behaves, non-zero otherwise
   (2 = a lookup did not terminate). */
#include <stdio.h>
#include <stdlib.h>
#include <signal.h>
#include <unistd.h>
#include "allocate.h"
#include "hashtab.h"

static unsigned keys[2000];

static unsigned hash (hash_table_entry_t e) { return *(const unsigned *) e; }
static int eq (hash_table_entry_t a, hash_table_entry_t b)
{ return *(const unsigned *) a == *(const unsigned *) b; }

static void on_alarm (int sig) { (void) sig; _exit (2); }

static int present (hash_table_t t, unsigned k)
{
  hash_table_entry_t *e = find_hash_table_entry (t, &keys[k], 0);
  if (*e == NULL) return 0;
  if (*(const unsigned *) *e != k) { fprintf (stderr, "wrong element for %u\n", k); exit (3); }
  return 1;
}

static void insert (hash_table_t t, unsigned k)
{
  hash_table_entry_t *e = find_hash_table_entry (t, &keys[k], 1);
  if (*e != NULL) { fprintf (stderr, "%u unexpectedly present\n", k); exit (4); }
  *e = &keys[k];
}

int main (void)
{
  YaepAllocator *a = yaep_alloc_new (NULL, NULL, NULL, NULL);
  hash_table_t t;
  unsigned k;

  for (k = 0; k < 2000; k++) keys[k] = k;
  signal (SIGALRM, on_alarm);
  alarm (10);
  t = create_hash_table (a, 5, hash, eq);
  /* two permanent residents */
  insert (t, 1000);
  insert (t, 1001);
  /* churn: a short-lived element comes and goes, never more than 3 live */
  for (k = 0; k < 300; k++)
    {
      if (present (t, k)) { fprintf (stderr, "%u present before insert\n", k); return 5; }
      insert (t, k);
      if (!present (t, k) || !present (t, 1000) || !present (t, 1001)) return 6;
      if (hash_table_elements_number (t) != 3) return 7;
      remove_element_from_hash_table_entry (t, &keys[k]);
      if (present (t, k)) { fprintf (stderr, "%u present after remove\n", k); return 8; }
      if (!present (t, 1000) || !present (t, 1001)) return 9;
      if (hash_table_elements_number (t) != 2) return 10;
    }
  /* nothing but the residents may be found */
  for (k = 0; k < 2000; k++)
    if (present (t, k) != (k == 1000 || k == 1001)) return 11;
  delete_hash_table (t);
  yaep_alloc_del (a);
  puts ("ok");
  return 0;
}
