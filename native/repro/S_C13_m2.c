/* ---- tracking allocator + tree checker (shared by the demos) ---- */
#include <stdio.h>
#include <stdlib.h>
#include <string.h>
#include "yaep.h"

#define MAXB 4096
static struct blk { void *p; int size; int live; int epoch; } blks[MAXB];
static int nblks, cur_epoch, violations;

static void fail (const char *msg)
{
  fprintf (stderr, "VIOLATION (parse %d): %s\n", cur_epoch, msg);
  violations++;
}

static struct blk *find_blk (void *p)
{
  int i;
  for (i = nblks - 1; i >= 0; i--)
    if (blks[i].p == p)
      return &blks[i];
  return NULL;
}

static void *t_alloc (int n)
{
  void *p = malloc (n);
  if (p == NULL || nblks >= MAXB) abort ();
  memset (p, 0xA5, n);
  blks[nblks].p = p; blks[nblks].size = n; blks[nblks].live = 1;
  blks[nblks].epoch = cur_epoch; nblks++;
  return p;
}

/* Blocks are poisoned and kept in quarantine (never returned to malloc
   before the end) so that stale references are detected deterministically. */
static void t_free (void *p)
{
  struct blk *b;
  if (p == NULL) return;
  b = find_blk (p);
  if (b == NULL) { fail ("parse_free of a block not returned by parse_alloc"); return; }
  if (!b->live) { fail ("parse_free of the same block twice"); return; }
  b->live = 0;
  memset (p, 0x5E, b->size);
}

/* parse_free used while yaep_parse is running: additionally the block
   must belong to the running parse. */
static void t_free_in_parse (void *p)
{
  struct blk *b = find_blk (p);
  if (p != NULL && b != NULL && b->epoch != cur_epoch)
    fail ("yaep_parse released a block of another parse");
  t_free (p);
}

static int live_blocks (int epoch)
{
  int i, n = 0;
  for (i = 0; i < nblks; i++)
    if (blks[i].live && (epoch < 0 || blks[i].epoch == epoch)) n++;
  return n;
}

static void release_quarantine (void)
{
  int i;
  for (i = 0; i < nblks; i++) free (blks[i].p);
  nblks = 0;
}

/* DAG walk: every reachable block must be live and of parse EPOCH.  */
static void *seen[MAXB]; static int nseen, n_term_nodes;
static int chk (void *p, int epoch, const char *what)
{
  struct blk *b = find_blk (p);
  char buf[128];
  if (b == NULL) { snprintf (buf, sizeof buf, "%s: not a parse_alloc block", what); fail (buf); return 0; }
  if (!b->live) { snprintf (buf, sizeof buf, "%s: reachable block already released", what); fail (buf); return 0; }
  if (b->epoch != epoch) { snprintf (buf, sizeof buf, "%s: block was allocated by another parse", what); fail (buf); return 0; }
  return 1;
}
static void walk (struct yaep_tree_node *n, int epoch)
{
  int i;
  if (n == NULL) { fail ("NULL node in tree"); return; }
  for (i = 0; i < nseen; i++) if (seen[i] == n) return;
  seen[nseen++] = n;
  if (!chk (n, epoch, "node")) return;
  switch (n->type)
    {
    case YAEP_NIL: case YAEP_ERROR: break;
    case YAEP_TERM: n_term_nodes++; break;
    case YAEP_ANODE:
      if (chk ((void *) n->val.anode.name, epoch, "anode name")
	  && n->val.anode.name[0] == '\0')
	fail ("anode name is empty/garbled");
      for (i = 0; n->val.anode.children[i] != NULL; i++)
	walk (n->val.anode.children[i], epoch);
      break;
    case YAEP_ALT:
      walk (n->val.alt.node, epoch);
      if (n->val.alt.next != NULL) walk (n->val.alt.next, epoch);
      break;
    default: fail ("garbled node type");
    }
}
static int check_tree (struct yaep_tree_node *root, int epoch)
{
  nseen = 0; n_term_nodes = 0;
  walk (root, epoch);
  return n_term_nodes;
}

static int n_termcb;
static void termcb (struct yaep_term *t) { (void) t; n_termcb++; }

static const char *tok_input; static int tok_pos;
static int read_tok (void **attr)
{
  *attr = NULL;
  return tok_input[tok_pos] ? tok_input[tok_pos++] : -1;
}
static int n_syntax_errors;
static void syn_err (int a, void *b, int c, void *d, int e, void *f)
{ (void) a; (void) b; (void) c; (void) d; (void) e; (void) f; n_syntax_errors++; }
/* ---- end of harness ---- */

/* Demo 2: yaep_free_tree on a tree in which an abstract node has an
   already-visited (shared) child FOLLOWED by a not yet visited child.
   The shared child here is the single NIL node of the parse. */
static void run (const char *text, const char *in, int epoch, int want_terms)
{
  struct grammar *g = yaep_create_grammar ();
  struct yaep_tree_node *root = NULL; int amb, terms;

  if (g == NULL || yaep_parse_grammar (g, 1, text) != 0)
    { fprintf (stderr, "grammar: %s\n", g ? yaep_error_message (g) : "no memory"); exit (2); }
  cur_epoch = epoch; tok_input = in; tok_pos = 0;
  if (yaep_parse (g, read_tok, syn_err, t_alloc, t_free_in_parse, &root, &amb) != 0
      || root == NULL)
    { fprintf (stderr, "parse failed: %s\n", yaep_error_message (g)); exit (2); }
  terms = check_tree (root, epoch);
  if (terms != want_terms) fail ("unexpected number of TERM nodes");
  yaep_free_grammar (g);
  check_tree (root, epoch);
  n_termcb = 0;
  yaep_free_tree (root, t_free, termcb);
  if (n_termcb != terms) fail ("termcb not called exactly once per TERM node");
  if (live_blocks (epoch) != 0) fail ("blocks left after yaep_free_tree");
}

int main (void)
{
  /* children of `s': [NIL, NIL, TERM c] -- the 2nd NIL is a repeated reference */
  run ("S : A B 'c' # s (0 1 2)\n  ;\nA : ;\nB : ;\n", "c", 1, 1);
  /* shared child in the middle, two distinct children after it */
  run ("S : 'a' 'b' 'c' # s (- 0 - 1 2)\n  ;\n", "abc", 2, 3);
  /* control: repeated reference is the LAST child */
  run ("S : 'a' 'b' # s (0 - 1 -)\n  ;\n", "ab", 3, 2);

  release_quarantine ();
  if (violations) { fprintf (stderr, "%d violation(s)\n", violations); return 1; }
  puts ("ok");
  return 0;
}
