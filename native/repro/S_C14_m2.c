/* C14 demo 2: two live grammar objects, freed in an order different from
   the order of last use.  Freeing A must release A's storage only; B must
   keep working and must be freeable afterwards.  */
#include <stdio.h>
#include <stdlib.h>
#include <string.h>
#include "yaep.h"

static const char *descr_a =
  "TERM;\n"
  "S : 'x' S 'y' # s (0 1 2)\n"
  "  |           # -\n"
  "  ;\n";

static const char *descr_b =
  "TERM;\n"
  "E : T         # 0\n"
  "  | E '+' T   # plus (0 2)\n"
  "  ;\n"
  "T : 'a'       # 0\n"
  "  | '(' E ')' # 1\n"
  "  ;\n";

static const char *input;
static int pos, n_errs;

static int
read_tok (void **attr)
{
  *attr = NULL;
  if (input[pos] == '\0')
    return -1;
  return input[pos++];
}

static void
syn_err (int a, void *b, int c, void *d, int e, void *f)
{
  (void) a; (void) b; (void) c; (void) d; (void) e; (void) f;
  n_errs++;
}

static int
count_nodes (struct yaep_tree_node *n)
{
  int i, r = 1;

  if (n == NULL)
    return 0;
  if (n->type == YAEP_ANODE)
    for (i = 0; n->val.anode.children[i] != NULL; i++)
      r += count_nodes (n->val.anode.children[i]);
  else if (n->type == YAEP_ALT)
    r += count_nodes (n->val.alt.node) + count_nodes (n->val.alt.next);
  return r;
}

static int
run (struct grammar *g, const char *str)
{
  struct yaep_tree_node *root;
  int code, amb, n;

  input = str;
  pos = 0;
  n_errs = 0;
  code = yaep_parse (g, read_tok, syn_err, NULL, NULL, &root, &amb);
  if (code != 0)
    return -100 - code;
  n = count_nodes (root) + 1000 * n_errs;
  yaep_free_tree (root, NULL, NULL);
  return n;
}

int
main (void)
{
  struct grammar *a, *b;
  int before, after, bad = 0;

  a = yaep_create_grammar ();
  if (a == NULL || yaep_parse_grammar (a, 1, descr_a) != 0)
    return 2;
  b = yaep_create_grammar ();
  if (b == NULL || yaep_parse_grammar (b, 1, descr_b) != 0)
    return 2;
  if (run (a, "xxyy") < 0)
    return 2;
  before = run (b, "a+(a+a)");	/* B is the most recently used object */
  if (before < 0)
    return 2;
  yaep_free_grammar (a);	/* ... and A is freed first.  */
  after = run (b, "a+(a+a)");
  if (after != before)
    {
      fprintf (stderr, "B changed after freeing A: %d -> %d\n", before, after);
      bad = 1;
    }
  /* B can still be redefined and used like a fresh object.  */
  if (yaep_parse_grammar (b, 1, descr_a) != 0 || run (b, "xy") < 0)
    {
      fprintf (stderr, "B unusable after freeing A\n");
      bad = 1;
    }
  yaep_free_grammar (b);
  return bad;
}
