/* F5 (C14/C15): error of yaep_parse_grammar(g1) is recorded in another object. */
#include "common.h"
int main (void)
{
  struct grammar *g1 = yaep_create_grammar (), *g2 = yaep_create_grammar (); int rc;
  rc = yaep_parse_grammar (g1, 1, "S : @ ;");
  CHECK (rc == YAEP_DESCRIPTION_SYNTAX_ERROR_CODE, "rc");
  CHECK (yaep_error_code (g2) == 0, "error recorded in the other object");
  CHECK (yaep_error_code (g1) == rc, "error not recorded in the object");
  yaep_free_grammar (g1); yaep_free_grammar (g2);
  puts ("ok"); return 0;
}
