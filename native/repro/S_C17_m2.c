/* C17 demo 2: allocation failure while a grammar with many symbols is
   being defined through yaep_read_grammar.

   The grammar has 150 terminals, enough to make the internal symbol
   vectors outgrow their initial size, so that some of the memory
   requests made by yaep_read_grammar are *re*allocations of a vector
   that is already in use.  For every k up to the number of allocations
   the fault-free yaep_read_grammar call performs, the k-th one is made
   to fail.  The call must return YAEP_NO_MEMORY (error code likewise),
   the grammar must then be re-definable and usable, it must be
   possible to free it, and a second grammar must be unaffected.

   Every k runs in a forked child so that a crash (signal, or sanitizer
   report = exit status 1) shows up in the parent as a bad wait status.
   Exit status: 0 = property holds for all k, 1 = it does not.  */

#include <stdio.h>
#include <stdlib.h>
#include <string.h>
#include <unistd.h>
#include <sys/wait.h>
#include "yaep.h"

/* ---- fault injection: interpose malloc/calloc/realloc ---- */
#if defined(__has_feature)
# if __has_feature(address_sanitizer)
#  define DEMO_ASAN 1
# endif
#endif
#if defined(__SANITIZE_ADDRESS__) && !defined(DEMO_ASAN)
# define DEMO_ASAN 1
#endif
#ifdef DEMO_ASAN
extern void *__interceptor_malloc (size_t);
extern void *__interceptor_calloc (size_t, size_t);
extern void *__interceptor_realloc (void *, size_t);
# define REAL_MALLOC __interceptor_malloc
# define REAL_CALLOC __interceptor_calloc
# define REAL_REALLOC __interceptor_realloc
#else
extern void *__libc_malloc (size_t);
extern void *__libc_calloc (size_t, size_t);
extern void *__libc_realloc (void *, size_t);
# define REAL_MALLOC __libc_malloc
# define REAL_CALLOC __libc_calloc
# define REAL_REALLOC __libc_realloc
#endif

static int fi_on;
static long fi_count, fi_fail_at;

static int
fi_hit (void)
{
  if (!fi_on)
    return 0;
  fi_count++;
  return fi_count == fi_fail_at;
}

void *malloc (size_t n) { return fi_hit () ? NULL : REAL_MALLOC (n); }
void *calloc (size_t a, size_t b) { return fi_hit () ? NULL : REAL_CALLOC (a, b); }
void *realloc (void *p, size_t n) { return fi_hit () ? NULL : REAL_REALLOC (p, n); }

/* ---- the grammar:  S : S X | X ;  X : t0 | t1 | ... | t149 ---- */
#define N_TERMS 150
static char term_name[N_TERMS][8];
static int n_term, n_rule;

static const char *
read_terminal (int *code)
{
  if (n_term >= N_TERMS)
    return NULL;
  *code = 1000 + n_term;
  return term_name[n_term++];
}

static const char *rhs_buf[3];
static int transl_buf[3];

static const char *
read_rule (const char ***rhs, const char **anode, int *cost, int **transl)
{
  *rhs = rhs_buf;
  *transl = transl_buf;
  *cost = 0;
  if (n_rule == 0)
    {
      rhs_buf[0] = "S"; rhs_buf[1] = "X"; rhs_buf[2] = NULL;
      transl_buf[0] = 0; transl_buf[1] = 1; transl_buf[2] = -1;
      *anode = "seq";
      n_rule++;
      return "S";
    }
  if (n_rule == 1)
    {
      rhs_buf[0] = "X"; rhs_buf[1] = NULL;
      transl_buf[0] = 0; transl_buf[1] = -1;
      *anode = NULL;
      n_rule++;
      return "S";
    }
  if (n_rule - 2 < N_TERMS)
    {
      rhs_buf[0] = term_name[n_rule - 2]; rhs_buf[1] = NULL;
      transl_buf[0] = 0; transl_buf[1] = -1;
      *anode = "x";
      n_rule++;
      return "X";
    }
  return NULL;
}

static int
define (struct grammar *g)
{
  n_term = n_rule = 0;
  return yaep_read_grammar (g, 1, read_terminal, read_rule);
}

static int n_in, in_pos;
static int in_codes[8];
static int rd (void **attr)
{ *attr = NULL; return in_pos < n_in ? in_codes[in_pos++] : -1; }
static void se (int a, void *b, int c, void *d, int e, void *f)
{ (void) a; (void) b; (void) c; (void) d; (void) e; (void) f; }
static void *pa (int n) { return malloc (n); }
static void pf (void *p) { free (p); }

/* parse "t3 t149 t77" and check the shape of the result */
static int
use (struct grammar *g)
{
  struct yaep_tree_node *root;
  int amb, rc;

  in_codes[0] = 1003; in_codes[1] = 1149; in_codes[2] = 1077;
  n_in = 3; in_pos = 0;
  rc = yaep_parse (g, rd, se, pa, pf, &root, &amb);
  if (rc != 0 || root == NULL || root->type != YAEP_ANODE
      || strcmp (root->val.anode.name, "seq") != 0)
    return 1;
  yaep_free_tree (root, pf, NULL);
  return 0;
}

static int
scenario (long k, long *n_allocs)
{
  struct grammar *other, *g;
  int rc;

  other = yaep_create_grammar ();
  g = yaep_create_grammar ();
  if (other == NULL || g == NULL || define (other) != 0)
    return 20;

  fi_count = 0;
  fi_fail_at = k;
  fi_on = 1;
  rc = define (g);
  fi_on = 0;
  *n_allocs = fi_count;

  if (k != 0 && k <= fi_count)
    {
      /* the failing request was reached */
      if (rc != YAEP_NO_MEMORY || yaep_error_code (g) != YAEP_NO_MEMORY)
	return 21;
    }
  else if (rc != 0)
    return 22;

  /* the other grammar is unaffected */
  if (use (other) != 0)
    return 23;
  /* the object survived: it can be defined again and used ... */
  if (define (g) != 0 || use (g) != 0)
    return 24;
  /* ... and freed */
  yaep_free_grammar (g);
  if (use (other) != 0)
    return 25;
  yaep_free_grammar (other);
  return 0;
}

int
main (void)
{
  long k, total, dummy;
  int i, bad = 0;

  for (i = 0; i < N_TERMS; i++)
    sprintf (term_name[i], "t%d", i);
  if (scenario (0, &total) != 0)
    {
      printf ("fault-free run failed\n");
      return 2;
    }
  printf ("yaep_read_grammar performs %ld allocations\n", total);
  for (k = 1; k <= total; k++)
    {
      pid_t pid;
      int st;

      fflush (stdout);
      pid = fork ();
      if (pid == 0)
	_exit (scenario (k, &dummy));
      waitpid (pid, &st, 0);
      if (!WIFEXITED (st) || WEXITSTATUS (st) != 0)
	{
	  printf ("k=%ld: FAILED (wait status 0x%x)\n", k, st);
	  bad = 1;
	}
    }
  printf (bad ? "C17 VIOLATED\n" : "C17 holds for all k\n");
  return bad;
}
