/* F27 (C10): non-strict definition accepts a grammar whose start symbol derives no terminal string (S : A ; with A undefined). */
#include "common.h"
int main (void)
{
  struct grammar *g = yaep_create_grammar (); int rc;
  rc = yaep_parse_grammar (g, 0, "S : A ;\n");
  CHECK (rc == YAEP_NONTERM_DERIVATION, "start symbol that derives no terminal string is accepted in non-strict mode");
  CHECK (yaep_error_code (g) == rc, "code");
  yaep_free_grammar (g);
  puts ("ok"); return 0;
}
