/* F10 (C17): the k-th allocation of yaep_create_grammar fails -> NULL is returned (never exit(1), never a crash). */
#include "common.h"
#include <dlfcn.h>
static long g_fail_at = -1, g_count;
extern void *__libc_malloc (size_t);
void *malloc (size_t n) { if (g_fail_at >= 0 && ++g_count == g_fail_at) return NULL; return __libc_malloc (n); }
int main (void)
{
  long k;
  for (k = 1; k <= 24; k++)
    {
      struct grammar *g;
      g_count = 0; g_fail_at = k;
      g = yaep_create_grammar ();
      g_fail_at = -1;
      if (g != NULL) yaep_free_grammar (g);
    }
  puts ("ok"); return 0;
}
