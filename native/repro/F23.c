/* F23 (C13/C12): the NIL node is used only by an alternative that cost pruning discards: it is released by the pruning pass
   and then read again (use after free) by the "free NIL/ERROR if unused" step of make_parse. */
#include "common.h"
static void *my_alloc (int n) { return malloc (n); }
static void my_free (void *p) { free (p); }
int main (void)
{
  struct grammar *g = yaep_create_grammar (); struct yaep_tree_node *root; int amb; int t[] = {'x'};
  CHECK (yaep_parse_grammar (g, 1, "S : 'x' # keep 0 (0) | 'x' # p 5 (0 -) ;\n") == 0, "define");
  yaep_set_one_parse_flag (g, 0); yaep_set_cost_flag (g, 1);
  g_toks = t; g_ntok = 1; g_pos = 0;
  CHECK (yaep_parse (g, rd_tok, on_err, my_alloc, my_free, &root, &amb) == 0 && root != NULL, "parse");
  yaep_free_tree (root, my_free, NULL);
  yaep_free_grammar (g);
  puts ("ok"); return 0;
}
