/* F2 (C15/C12): token code undeclared but between the smallest and largest declared code. */
#include "common.h"
int main (void)
{
  struct grammar *g = yaep_create_grammar (); struct yaep_tree_node *root; int amb;
  int t[] = {'c'}; int rc;
  CHECK (yaep_parse_grammar (g, 1, "S : 'a' 'e' ;\n") == 0, "define");
  rc = parse_codes (g, t, 1, &root, &amb);
  CHECK (rc == YAEP_INVALID_TOKEN_CODE, "undeclared code inside [min,max] not rejected");
  CHECK (yaep_error_code (g) == YAEP_INVALID_TOKEN_CODE, "error code");
  yaep_free_grammar (g);
  puts ("ok"); return 0;
}
