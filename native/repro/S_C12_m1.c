/* C12 demo 1: a terminal with a very long name (>= 100 characters) that is
   declared twice with different codes in a textual grammar description.
   yaep_parse_grammar must return YAEP_REPEATED_TERM_CODE and leave a
   well-formed, NUL-terminated, bounded error message that consists of the
   fixed text and a (truncated) prefix of the user's name -- nothing else. */
#include <stdio.h>
#include <stdlib.h>
#include <string.h>
#include "yaep.h"

#define NAME_LEN 300

int
main (void)
{
  struct grammar *g;
  char name[NAME_LEN + 1];
  char *descr;
  const char *msg, *p;
  const char *prefix = "term ";
  const char *suffix = " described repeatedly with different code";
  size_t len, i, n;
  int code, rc = 0;

  memset (name, 'a', NAME_LEN);
  name[NAME_LEN] = '\0';
  /* exact-size heap buffer for the description */
  len = 2 * NAME_LEN + 200;
  descr = malloc (len);
  snprintf (descr, len, "TERM %s = 1 %s = 2;\nS : %s ;\n", name, name, name);

  g = yaep_create_grammar ();
  if (g == NULL)
    return 2;
  code = yaep_parse_grammar (g, 1, descr);
  if (code != YAEP_REPEATED_TERM_CODE)
    {
      fprintf (stderr, "unexpected return code %d\n", code);
      rc = 3;
    }
  if (yaep_error_code (g) != code)
    rc = 4;
  msg = yaep_error_message (g);
  n = strlen (msg);
  fprintf (stderr, "message length %zu\n", n);
  if (n > 200)
    {
      fprintf (stderr, "message too long\n");
      rc = 5;
    }
  /* The message must be: prefix, then only 'a's, then (possibly truncated)
     suffix. */
  if (strncmp (msg, prefix, strlen (prefix)) != 0)
    rc = 6;
  else
    {
      p = msg + strlen (prefix);
      for (i = 0; p[i] == 'a'; i++)
        ;
      if (i == 0 || i > NAME_LEN)
        rc = 7;
      if (strncmp (p + i, suffix, strlen (p + i)) != 0)
        {
          fprintf (stderr, "garbage in error message: \"%s\"\n", msg);
          rc = 8;
        }
    }
  yaep_free_grammar (g);
  free (descr);
  if (rc != 0)
    fprintf (stderr, "FAIL rc=%d\n", rc);
  else
    fprintf (stderr, "OK\n");
  return rc;
}
