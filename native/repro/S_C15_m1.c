/* C15 demo 1: after a FAILED grammar (re)definition on an object that
   previously held a good grammar, no grammar is defined, so yaep_parse
   must return YAEP_UNDEFINED_OR_BAD_GRAMMAR (and record it).  */
#include <stdio.h>
#include <stdlib.h>
#include <string.h>
#include "yaep.h"

static const char *input;
static int pos;

static int
read_tok (void **attr)
{
  *attr = NULL;
  if (input[pos] == '\0')
    return -1;
  return (unsigned char) input[pos++];
}

static int n_syntax_errors;
static void
syn_err (int a, void *b, int c, void *d, int e, void *f)
{
  (void) a; (void) b; (void) c; (void) d; (void) e; (void) f;
  n_syntax_errors++;
}

static void *p_alloc (int n) { return malloc (n); }
static void p_free (void *m) { free (m); }

static int failures;
#define CHECK(c) do { if (!(c)) { fprintf (stderr, "line %d: CHECK FAILED: %s\n", __LINE__, #c); failures++; } } while (0)

static int
do_parse (struct grammar *g, const char *in)
{
  struct yaep_tree_node *root;
  int amb, rc;

  input = in;
  pos = 0;
  rc = yaep_parse (g, read_tok, syn_err, p_alloc, p_free, &root, &amb);
  if (rc == 0 && root != NULL)
    yaep_free_tree (root, p_free, NULL);
  return rc;
}

static const char *good =
  "TERM;\n"
  "S : 'a'      # 0\n"
  "  | S 'a'    # 1\n"
  "  ;\n";

/* Terminals only, no rule at all -> YAEP_NO_RULES.  */
static const char *no_rules = "TERM a = 97;\n";

/* read_grammar callbacks declaring the same terminal twice.  */
static int nterm;
static const char *
rt_dup (int *code)
{
  static const char *names[] = { "a", "a" };
  if (nterm >= 2)
    return NULL;
  *code = 97 + nterm;
  return names[nterm++];
}
static const char *
rr_none (const char ***rhs, const char **an, int *cost, int **tr)
{
  (void) rhs; (void) an; (void) cost; (void) tr;
  return NULL;
}

int
main (void)
{
  struct grammar *g = yaep_create_grammar ();
  int rc;

  if (g == NULL)
    return 100;
  CHECK (yaep_error_code (g) == 0);

  /* 1. good grammar, good parse.  */
  rc = yaep_parse_grammar (g, 1, good);
  CHECK (rc == 0);
  rc = do_parse (g, "aaa");
  CHECK (rc == 0);
  CHECK (n_syntax_errors == 0);

  /* 2. redefinition fails late (no rules).  */
  rc = yaep_parse_grammar (g, 1, no_rules);
  CHECK (rc == YAEP_NO_RULES);
  CHECK (yaep_error_code (g) == rc);
  CHECK (yaep_error_message (g)[0] != '\0');
  /* ... so now there is no grammar.  */
  rc = do_parse (g, "aaa");
  CHECK (rc == YAEP_UNDEFINED_OR_BAD_GRAMMAR);
  CHECK (yaep_error_code (g) == YAEP_UNDEFINED_OR_BAD_GRAMMAR);
  CHECK (strstr (yaep_error_message (g), "grammar") != NULL);

  /* 3. good again, then a redefinition that fails early.  */
  rc = yaep_parse_grammar (g, 1, good);
  CHECK (rc == 0);
  rc = do_parse (g, "a");
  CHECK (rc == 0);
  nterm = 0;
  rc = yaep_read_grammar (g, 1, rt_dup, rr_none);
  CHECK (rc == YAEP_REPEATED_TERM_DECL);
  CHECK (yaep_error_code (g) == rc);
  rc = do_parse (g, "");
  CHECK (rc == YAEP_UNDEFINED_OR_BAD_GRAMMAR);
  CHECK (yaep_error_code (g) == YAEP_UNDEFINED_OR_BAD_GRAMMAR);

  /* 4. and the object is still usable.  */
  rc = yaep_parse_grammar (g, 1, good);
  CHECK (rc == 0);
  rc = do_parse (g, "aa");
  CHECK (rc == 0);
  CHECK (n_syntax_errors == 0);

  yaep_free_grammar (g);
  if (failures)
    {
      fprintf (stderr, "%d check(s) failed\n", failures);
      return 1;
    }
  printf ("ok\n");
  return 0;
}
