/* F8 (C11): implicit terminal codes start at 256. */
#include "common.h"
int main (void)
{
  struct grammar *g = yaep_create_grammar (); struct yaep_tree_node *root; int amb; int t0[] = {0}, t256[] = {256};
  CHECK (yaep_parse_grammar (g, 1, "TERM NUM;\nS : NUM # 0\n;") == 0, "define");
  CHECK (parse_codes (g, t256, 1, &root, &amb) == 0 && g_nerr == 0, "code 256 rejected");
  yaep_free_tree (root, NULL, NULL);
  CHECK (parse_codes (g, t0, 1, &root, &amb) == YAEP_INVALID_TOKEN_CODE, "code 0 accepted");
  yaep_free_grammar (g);
  puts ("ok"); return 0;
}
