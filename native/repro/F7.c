/* F7 (C12): description ending in a quote, exact-size heap buffer. */
#include "common.h"
int main (void)
{
  struct grammar *g = yaep_create_grammar (); const char *s = "S : '"; char *d = malloc (strlen (s) + 1); int rc;
  strcpy (d, s);
  rc = yaep_parse_grammar (g, 1, d);
  CHECK (rc == YAEP_DESCRIPTION_SYNTAX_ERROR_CODE, "rc");
  free (d); yaep_free_grammar (g);
  puts ("ok"); return 0;
}
