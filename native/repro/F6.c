/* F6 (C14): create g1; create g2; free g2; free g1. */
#include "common.h"
int main (void)
{
  struct grammar *g1 = yaep_create_grammar (), *g2 = yaep_create_grammar ();
  yaep_free_grammar (g2); yaep_free_grammar (g1);
  puts ("ok"); return 0;
}
