/* C12 demo 2: token codes that are NOT terminals of the grammar must be
   rejected with YAEP_INVALID_TOKEN_CODE, whatever their value.  The grammar
   has dense terminal codes (so the code->symbol translation vector is used);
   we feed, one parse per code, every code around both ends of the used code
   range, in particular max_code + 1. */
#include <stdio.h>
#include <stdlib.h>
#include <string.h>
#include <limits.h>
#include "yaep.h"

#define MAX_CODE 1020		/* (MAX_CODE + 3) * 8 == 8184: a size class with no slack */

static const char *tnames[] = { "a", "b", "c" };
static int tcodes[] = { 5, 6, MAX_CODE };
static int nterm;

static const char *
read_terminal (int *code)
{
  if (nterm >= 3)
    return NULL;
  *code = tcodes[nterm];
  return tnames[nterm++];
}

static const char *rhs1[] = { "a", "b", "c", NULL };
static int nrule;

static const char *
read_rule (const char ***rhs, const char **anode, int *cost, int **transl)
{
  if (nrule++ > 0)
    return NULL;
  *rhs = rhs1;
  *anode = NULL;
  *cost = 0;
  *transl = NULL;
  return "S";
}

static int the_code, ntok;

static int
read_token (void **attr)
{
  *attr = NULL;
  if (ntok++ == 0)
    return the_code;
  return -1;
}

static void
syntax_error (int a, void *b, int c, void *d, int e, void *f)
{
  (void) a; (void) b; (void) c; (void) d; (void) e; (void) f;
}

int
main (void)
{
  struct grammar *g;
  struct yaep_tree_node *root;
  int amb, rc, i, bad = 0;
  int codes[] = { MAX_CODE + 1, MAX_CODE + 2, MAX_CODE - 1, 4, 0, 7,
                  INT_MAX, 100000 };

  g = yaep_create_grammar ();
  if (g == NULL)
    return 2;
  rc = yaep_read_grammar (g, 1, read_terminal, read_rule);
  if (rc != 0)
    {
      fprintf (stderr, "grammar: %s\n", yaep_error_message (g));
      return 3;
    }
  for (i = 0; i < (int) (sizeof (codes) / sizeof (codes[0])); i++)
    {
      the_code = codes[i];
      ntok = 0;
      root = NULL;
      rc = yaep_parse (g, read_token, syntax_error, NULL, NULL, &root, &amb);
      if (rc != YAEP_INVALID_TOKEN_CODE)
        {
          fprintf (stderr, "code %d: yaep_parse returned %d instead of "
                   "YAEP_INVALID_TOKEN_CODE\n", the_code, rc);
          bad = 1;
        }
      else if (strstr (yaep_error_message (g), "invalid token code") == NULL)
        bad = 1;
    }
  yaep_free_grammar (g);
  fprintf (stderr, bad ? "FAIL\n" : "OK\n");
  return bad;
}
