/* C17 demo 1: allocation failure inside yaep_create_grammar.

   For every k up to the number of allocations a fault-free
   yaep_create_grammar performs, make the k-th allocation fail and
   check that the call returns NULL (or a grammar that can be freed)
   without crashing, and that a grammar created earlier is still fully
   usable afterwards.

   k = 2 (the `struct grammar' block itself) is skipped: on the
   unmodified tree that request is made before the library installs
   its own out-of-memory handler, so the default handler calls exit().
   That is a pre-existing defect and not what this demo is about.

   Every k runs in a forked child so that a crash (SIGSEGV/SIGABRT, or
   a sanitizer report, which exits with status 1) is seen by the parent
   as a non-zero wait status.  Exit status: 0 = property holds for all
   tested k, 1 = it does not.  */

#include <stdio.h>
#include <stdlib.h>
#include <string.h>
#include <unistd.h>
#include <sys/wait.h>
#include "yaep.h"

/* ---- fault injection: interpose malloc/calloc/realloc ---- */
#if defined(__has_feature)
# if __has_feature(address_sanitizer)
#  define DEMO_ASAN 1
# endif
#endif
#if defined(__SANITIZE_ADDRESS__) && !defined(DEMO_ASAN)
# define DEMO_ASAN 1
#endif
#ifdef DEMO_ASAN
extern void *__interceptor_malloc (size_t);
extern void *__interceptor_calloc (size_t, size_t);
extern void *__interceptor_realloc (void *, size_t);
# define REAL_MALLOC __interceptor_malloc
# define REAL_CALLOC __interceptor_calloc
# define REAL_REALLOC __interceptor_realloc
#else
extern void *__libc_malloc (size_t);
extern void *__libc_calloc (size_t, size_t);
extern void *__libc_realloc (void *, size_t);
# define REAL_MALLOC __libc_malloc
# define REAL_CALLOC __libc_calloc
# define REAL_REALLOC __libc_realloc
#endif

static int fi_on;
static long fi_count, fi_fail_at;

static int
fi_hit (void)
{
  if (!fi_on)
    return 0;
  fi_count++;
  return fi_count == fi_fail_at;
}

void *malloc (size_t n) { return fi_hit () ? NULL : REAL_MALLOC (n); }
void *calloc (size_t a, size_t b) { return fi_hit () ? NULL : REAL_CALLOC (a, b); }
void *realloc (void *p, size_t n) { return fi_hit () ? NULL : REAL_REALLOC (p, n); }

/* ---- a tiny grammar used to check that a bystander still works ---- */
static const char *descr =
  "TERM;\n"
  "E : E '+' T # plus (0 2)\n"
  "  | T # 0\n"
  "  ;\n"
  "T : 'a' # 0\n"
  "  ;\n";
static const char *input;
static int pos;
static int rd (void **attr) { *attr = NULL; return input[pos] ? input[pos++] : -1; }
static void se (int a, void *b, int c, void *d, int e, void *f)
{ (void) a; (void) b; (void) c; (void) d; (void) e; (void) f; }
static void *pa (int n) { return malloc (n); }
static void pf (void *p) { free (p); }

/* Make recycled heap blocks contain non-zero garbage, as they would in
   any long-running program (ASan poisons fresh blocks on its own).  */
static void
dirty_heap (void)
{
  void *p[64];
  size_t s;
  int i;

  for (s = 16; s <= 2048; s += 16)
    {
      for (i = 0; i < 8; i++)
	{
	  p[i] = malloc (s);
	  memset (p[i], 0xA5, s);
	}
      for (i = 0; i < 8; i++)
	free (p[i]);
    }
}

/* Returns 0 if everything is as promised.  */
static int
scenario (long k, long *n_allocs)
{
  struct grammar *bystander, *g;
  struct yaep_tree_node *root;
  int amb, rc;

  bystander = yaep_create_grammar ();
  if (bystander == NULL || yaep_parse_grammar (bystander, 1, descr) != 0)
    return 20;
  dirty_heap ();

  fi_count = 0;
  fi_fail_at = k;
  fi_on = 1;
  g = yaep_create_grammar ();
  fi_on = 0;
  *n_allocs = fi_count;
  if (k != 0 && k <= fi_count && g != NULL)
    return 21;			/* failure was swallowed?  */
  if (g != NULL)
    yaep_free_grammar (g);

  /* the bystander must be unaffected */
  input = "a+a+a";
  pos = 0;
  rc = yaep_parse (bystander, rd, se, pa, pf, &root, &amb);
  if (rc != 0 || root == NULL || root->type != YAEP_ANODE
      || strcmp (root->val.anode.name, "plus") != 0)
    return 22;
  yaep_free_tree (root, pf, NULL);
  yaep_free_grammar (bystander);

  /* and a new grammar can be created again */
  g = yaep_create_grammar ();
  if (g == NULL)
    return 23;
  yaep_free_grammar (g);
  return 0;
}

int
main (void)
{
  long k, total, dummy;
  int bad = 0;

  if (scenario (0, &total) != 0)
    {
      printf ("fault-free run failed\n");
      return 2;
    }
  printf ("yaep_create_grammar performs %ld allocations\n", total);
  for (k = 1; k <= total; k++)
    {
      pid_t pid;
      int st;

      if (k == 2)
	continue;		/* pre-existing defect, see above */
      fflush (stdout);
      pid = fork ();
      if (pid == 0)
	_exit (scenario (k, &dummy));
      waitpid (pid, &st, 0);
      if (!WIFEXITED (st) || WEXITSTATUS (st) != 0)
	{
	  printf ("k=%ld: FAILED (wait status 0x%x)\n", k, st);
	  bad = 1;
	}
    }
  printf (bad ? "C17 VIOLATED\n" : "C17 holds for all tested k\n");
  return bad;
}
