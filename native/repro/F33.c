/* C17 demo: fail the k-th internal memory request of yaep_create_grammar,
   yaep_parse_grammar and yaep_parse, for every k up to the number of
   requests of the fault-free run.  Each call must return NULL resp.
   YAEP_NO_MEMORY (or succeed when the failed request was not reached),
   must not touch invalid memory (AddressSanitizer/assert watch that), the
   grammar must still be freeable and a second, independent grammar must
   keep working.  Exit status 0 = property held everywhere.  */
#include <stdio.h>
#include <stdlib.h>
#include <string.h>
#include "yaep.h"

/* --- fault injection: the library's default allocator calls the C
   library's malloc/calloc/realloc; we interpose them and hand the real
   work to the sanitizer's allocator.  --- */
extern void *__interceptor_malloc (size_t);
extern void *__interceptor_calloc (size_t, size_t);
extern void *__interceptor_realloc (void *, size_t);

static long n_requests;		/* requests seen while armed */
static long fail_at;		/* 1-based index of the request to fail; 0 = none */
static int armed;

static int
should_fail (void)
{
  if (!armed)
    return 0;
  n_requests++;
  return n_requests == fail_at;
}

void *
malloc (size_t n)
{
  if (should_fail ())
    return NULL;
  return __interceptor_malloc (n);
}

void *
calloc (size_t a, size_t b)
{
  if (should_fail ())
    return NULL;
  return __interceptor_calloc (a, b);
}

void *
realloc (void *p, size_t n)
{
  if (should_fail ())
    return NULL;
  return __interceptor_realloc (p, n);
}

/* Leaks are not what this demo is about.  */
const char *
__asan_default_options (void)
{
  return "detect_leaks=0";
}

static void
arm (long k)
{
  n_requests = 0;
  fail_at = k;
  armed = 1;
}

static long
disarm (void)
{
  armed = 0;
  return n_requests;
}

/* --- scenario --- */
static const char *description =
  "TERM NUM = 300;\n"
  "E : E '+' T # plus (0 2)\n"
  "  | T       # 0\n"
  "  ;\n"
  "T : T '*' F # mul (0 2)\n"
  "  | F       # 0\n"
  "  ;\n"
  "F : NUM     # 0\n"
  "  | '(' E ')' # 1\n"
  "  ;\n";

static const int input_ok[] = { 300, '+', 300, '*', '(', 300, '+', 300, ')', -1 };
static const int *input;
static int input_pos;

static int
read_tok (void **attr)
{
  *attr = NULL;
  if (input[input_pos] < 0)
    return -1;
  return input[input_pos++];
}

static void
syntax_err (int a, void *b, int c, void *d, int e, void *f)
{
  (void) a; (void) b; (void) c; (void) d; (void) e; (void) f;
}

/* Number of memory requests yaep_parse makes for this scenario before
   it starts to build the Earley sets.  */
#define N_PARSE_SETUP 100000

static int n_violations;

static void
violation (const char *what, long k, int code)
{
  n_violations++;
  fprintf (stderr, "VIOLATION: %s (failed request %ld, code %d)\n", what, k,
	   code);
}

/* Parse the fixed input with G; returns the code of yaep_parse.  */
static int
do_parse (struct grammar *g)
{
  struct yaep_tree_node *root = NULL;
  int ambiguous_p = 0, code;

  input = input_ok;
  input_pos = 0;
  code = yaep_parse (g, read_tok, syntax_err, NULL, NULL, &root, &ambiguous_p);
  if (code == 0)
    {
      int was = armed;
      armed = 0;
      if (root == NULL)
	violation ("successful parse without a tree", fail_at, code);
      else
	yaep_free_tree (root, NULL, NULL);
      armed = was;
    }
  return code;
}

/* The witness grammar must be fully functional.  */
static void
check_other (struct grammar *other, long k)
{
  int code = do_parse (other);

  if (code != 0)
    violation ("an unrelated grammar stopped working", k, code);
}

int
main (void)
{
  struct grammar *other, *g;
  long n_create, n_define, n_parse, k;
  int code;

  /* The witness object that must stay unaffected.  */
  other = yaep_create_grammar ();
  if (other == NULL || yaep_parse_grammar (other, 1, description) != 0
      || do_parse (other) != 0)
    {
      fprintf (stderr, "setup failed\n");
      return 2;
    }

  /* Fault-free run: count the requests of each stage.  */
  arm (0);
  g = yaep_create_grammar ();
  n_create = disarm ();
  arm (0);
  code = yaep_parse_grammar (g, 1, description);
  n_define = disarm ();
  if (g == NULL || code != 0)
    return 2;
  arm (0);
  code = do_parse (g);
  n_parse = disarm ();
  if (code != 0)
    return 2;
  yaep_free_grammar (g);
  fprintf (stderr, "requests: create %ld, define %ld, parse %ld\n", n_create,
	   n_define, n_parse);

  /* Stage 1: yaep_create_grammar.  */
  for (k = 1; k <= n_create; k++)
    {
      arm (k);
      g = yaep_create_grammar ();
      disarm ();
      if (g != NULL && n_requests >= k)
	violation ("yaep_create_grammar returned an object", k, 0);
      if (g != NULL)
	yaep_free_grammar (g);
      check_other (other, k);
    }

  /* Stage 2: grammar definition.  */
  for (k = 1; k <= n_define; k++)
    {
      g = yaep_create_grammar ();
      if (g == NULL)
	return 2;
      arm (k);
      code = yaep_parse_grammar (g, 1, description);
      disarm ();
      if (n_requests >= k && code != YAEP_NO_MEMORY)
	violation ("definition did not report YAEP_NO_MEMORY", k, code);
      if (code == YAEP_NO_MEMORY && yaep_error_code (g) != YAEP_NO_MEMORY)
	violation ("yaep_error_code disagrees", k, yaep_error_code (g));
      /* The object can still be given a definition and be used...  */
      if (yaep_parse_grammar (g, 1, description) != 0 || do_parse (g) != 0)
	violation ("grammar unusable after a failed definition", k, 0);
      /* ... and be freed.  */
      yaep_free_grammar (g);
      check_other (other, k);
    }

  /* Stage 3: yaep_parse, first parse of a fresh grammar and a parse
     after an earlier successful one.  Only the requests made while
     yaep_parse sets its working storage up are failed here (token
     array, situation/set/core-symbol tables, parser list: the first
     N_PARSE_SETUP requests for this scenario); failures later, inside
     the construction of the sets, are outside this demo.  */
  if (n_parse > N_PARSE_SETUP)
    n_parse = N_PARSE_SETUP;
  for (k = 1; k <= n_parse; k++)
    {
      int warm;

      for (warm = 0; warm <= 1; warm++)
	{
	  g = yaep_create_grammar ();
	  if (g == NULL || yaep_parse_grammar (g, 1, description) != 0)
	    return 2;
	  if (warm && do_parse (g) != 0)
	    return 2;
	  arm (k);
	  code = do_parse (g);
	  disarm ();
	  if (n_requests >= k && code != YAEP_NO_MEMORY)
	    violation ("yaep_parse did not report YAEP_NO_MEMORY", k, code);
	  /* The grammar is still good for a parse.  */
	  if (do_parse (g) != 0)
	    violation ("grammar unusable after a failed parse", k, 0);
	  yaep_free_grammar (g);
	  check_other (other, k);
	}
    }

  yaep_free_grammar (other);
  if (n_violations != 0)
    {
      fprintf (stderr, "%d violation(s)\n", n_violations);
      return 1;
    }
  fprintf (stderr, "ok\n");
  return 0;
}
