/* N(k) stand-in for the verdicts of yaep_read_grammar (C10 RG.flags / RG.verdict): the REAL function through the public API on every
   grammar of a bounded space, compared with a specification written from the property statement.
   Space: nonterminals N0 (start: lhs of the first rule), N1, N2, one terminal 'a'; up to NRULES rules; right-hand sides of length
   0..2 over {N0, N1, N2, a}; strict and non-strict.  Specification: productive / reachable / nullable as least fixpoints; a
   nonterminal "can derive itself" iff it lies on a cycle of the relation A -> B iff A : x B y with x, y nullable.
   Expected: return 0 iff no defect (strict: some nonterminal unproductive or unreachable or looping; non-strict: start unproductive or
   some nonterminal looping); a nonzero code names a defect that is present.  Second family: unit-rule chains of length 1..CHAIN. */
#include <stdio.h>
#include <stdlib.h>
#include <string.h>
#include "yaep.h"
#ifndef NRULES
#define NRULES 3
#endif
#ifndef CHAIN
#define CHAIN 10
#endif
#define MAXR 64
#define MAXS 32
static const char *names[MAXS]; static char namebuf[MAXS][8];
static int nrules, lhs[MAXR], len[MAXR], rhs[MAXR][3];     /* symbol indices; index TERM = terminal */
static int TERM;                                            /* index of the terminal 'a' */
static int ti, ri; static const char *rhsbuf[4]; static int trans[1] = { -1 };
static const char *rt (int *code) { if (ti++) return NULL; *code = 'a'; return "a"; }
static const char *rr (const char ***r, const char **an, int *cost, int **tr)
{ int j; if (ri >= nrules) return NULL; for (j = 0; j < len[ri]; j++) rhsbuf[j] = names[rhs[ri][j]]; rhsbuf[len[ri]] = NULL;
  *r = rhsbuf; *an = NULL; *cost = 0; *tr = trans; return names[lhs[ri++]]; }
static int nsym;
static void spec (int strict, int *defect, int *under, int *unacc, int *loop)
{
  int used[MAXS] = {0}, prod[MAXS] = {0}, reach[MAXS] = {0}, nul[MAXS] = {0}, R[MAXS][MAXS], i, j, k, ch;
  for (i = 0; i < nrules; i++) { used[lhs[i]] = 1; for (j = 0; j < len[i]; j++) used[rhs[i][j]] = 1; }
  prod[TERM] = 1; reach[lhs[0]] = 1;
  do { ch = 0;
    for (i = 0; i < nrules; i++) { int p = 1, e = 1; for (j = 0; j < len[i]; j++) { p &= prod[rhs[i][j]]; e &= nul[rhs[i][j]]; if (reach[lhs[i]] && !reach[rhs[i][j]]) { reach[rhs[i][j]] = 1; ch = 1; } }
      if (p && !prod[lhs[i]]) { prod[lhs[i]] = 1; ch = 1; } if (e && !nul[lhs[i]]) { nul[lhs[i]] = 1; ch = 1; } }
  } while (ch);
  memset (R, 0, sizeof R);
  for (i = 0; i < nrules; i++) for (j = 0; j < len[i]; j++) if (rhs[i][j] != TERM)
    { int rest = 1; for (k = 0; k < len[i]; k++) if (k != j && !nul[rhs[i][k]]) rest = 0; if (rest) R[lhs[i]][rhs[i][j]] = 1; }
  for (k = 0; k < nsym; k++) for (i = 0; i < nsym; i++) for (j = 0; j < nsym; j++) if (R[i][k] && R[k][j]) R[i][j] = 1;
  *under = *unacc = *loop = 0;
  for (i = 0; i < nsym; i++) if (used[i] && i != TERM) { if (!prod[i]) *under = 1; if (!reach[i]) *unacc = 1; if (R[i][i]) *loop = 1; }
  *defect = strict ? (*under || *unacc || *loop) : (!prod[lhs[0]] || *loop);
}
static long cases, bad; static int shown;
static void one (int strict)
{
  struct grammar *g = yaep_create_grammar (); int rc, defect, under, unacc, loop, ok;
  ti = ri = 0; rc = yaep_read_grammar (g, strict, rt, rr);
  spec (strict, &defect, &under, &unacc, &loop);
  ok = (rc == 0) == !defect;
  if (rc == YAEP_NONTERM_DERIVATION) ok = ok && under; else if (rc == YAEP_UNACCESSIBLE_NONTERM) ok = ok && strict && unacc; else if (rc == YAEP_LOOP_NONTERM) ok = ok && loop; else if (rc != 0) ok = 0;
  if (rc != 0) ok = ok && yaep_error_code (g) == rc;
  cases++;
  if (!ok) { bad++; if (shown++ < 3) { int i, j; fprintf (stderr, "MISMATCH strict=%d rc=%d expected-defect=%d (under=%d unacc=%d loop=%d):", strict, rc, defect, under, unacc, loop);
      for (i = 0; i < nrules; i++) { fprintf (stderr, " %s :", names[lhs[i]]); for (j = 0; j < len[i]; j++) fprintf (stderr, " %s", names[rhs[i][j]]); fprintf (stderr, " ;"); } fprintf (stderr, "\n"); } }
  yaep_free_grammar (g);
}
static void enum_rules (int r)
{
  int l, n, a, b;
  if (r > 0) { nrules = r; one (0); one (1); }
  if (r == NRULES) return;
  for (l = 0; l < 3; l++)
    { if (r == 0 && l != 0) continue;           /* the first lhs is the start symbol N0 (names are arbitrary) */
      lhs[r] = l;
      for (n = 0; n <= 2; n++)
        { len[r] = n;
          if (n == 0) enum_rules (r + 1);
          else for (a = 0; a < 4; a++) { rhs[r][0] = a; if (n == 1) enum_rules (r + 1); else for (b = 0; b < 4; b++) { rhs[r][1] = b; enum_rules (r + 1); } } } }
}
int main (void)
{
  int i, k; long c1, b1;
  for (i = 0; i < 3; i++) { sprintf (namebuf[i], "N%d", i); names[i] = namebuf[i]; } names[3] = "a"; TERM = 3; nsym = 4;
  enum_rules (0);
  printf ("CASE read_grammar_verdicts %ld %s return code against least-fixpoint specification (<= %d rules over 3 nonterminals and 1 terminal, rhs <= 2, strict and non-strict)\n", cases, bad ? "FAIL" : "OK", NRULES);
  c1 = cases; b1 = bad; cases = bad = 0;
  /* chains: S : S N1 | a ; Ni : N(i+1) | a ; Nk : (empty)   -> S can derive itself through the nullable N1 */
  for (k = 1; k <= CHAIN; k++)
    {
      names[0] = "S"; for (i = 1; i <= k; i++) { sprintf (namebuf[i], "N%d", i); names[i] = namebuf[i]; } TERM = k + 1; names[TERM] = "a"; nsym = k + 2;
      nrules = 0; lhs[0] = 0; len[0] = 2; rhs[0][0] = 0; rhs[0][1] = 1; lhs[1] = 0; len[1] = 1; rhs[1][0] = TERM; nrules = 2;
      for (i = 1; i < k; i++) { lhs[nrules] = i; len[nrules] = 1; rhs[nrules][0] = i + 1; nrules++; lhs[nrules] = i; len[nrules] = 1; rhs[nrules][0] = TERM; nrules++; }
      lhs[nrules] = k; len[nrules] = 0; nrules++;
      one (0); one (1);
    }
  printf ("CASE read_grammar_chains %ld %s nullability through unit-rule chains of length 1..%d makes the start symbol derive itself (YAEP_LOOP_NONTERM)\n", cases, bad ? "FAIL" : "OK", CHAIN);
  return (b1 || bad) != 0;
}
