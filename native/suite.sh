#!/bin/bash
# Build /repo/_build and run the pinned suite; succeed iff the 120 baseline tests (yaep-test*, yaep++-test*) all pass.
cmake --build /repo/_build >/dev/null 2>&1 || { echo "BUILD FAILED"; exit 1; }
out=$(ctest --test-dir /repo/_build -j16 --timeout 900 -R '^yaep(\+\+)?-test' 2>&1)
echo "$out" | grep -E "tests passed|Failed" | head
echo "$out" | grep -q "100% tests passed, 0 tests failed out of 120"
