/* N(k) stand-in for C17 on the REAL library: the k-th memory request made during yaep_create_grammar, yaep_parse_grammar,
   yaep_read_grammar or yaep_parse fails (malloc/calloc/realloc of the process are interposed), for EVERY k until the call succeeds.
   Fresh memory is filled with junk.  Expected: NULL respectively YAEP_NO_MEMORY, no crash, the object (and a second, unrelated object) can still be freed, the second
   object still parses.  Each k runs in a forked child so that a crash is observed as a wait status.  Built with UBSan only
   (AddressSanitizer owns malloc). */
#include <stdio.h>
#include <stdlib.h>
#include <string.h>
#include <unistd.h>
#include <sys/wait.h>
#include "yaep.h"
/* under AddressSanitizer the requests go on to its allocator (which also fills fresh memory with 0xBE and finds wild / double frees and
   uses after free on the error paths); without it to libc's */
#if defined(__has_feature)
#if __has_feature(address_sanitizer)
#define BASE(f) __interceptor_##f
const char *__asan_default_options (void) { return "detect_leaks=0:allocator_may_return_null=1"; }
#endif
#endif
#ifndef BASE
#define BASE(f) __libc_##f
#endif
#define __libc_malloc BASE (malloc)
#define __libc_calloc BASE (calloc)
#define __libc_realloc BASE (realloc)
extern void *BASE (malloc) (size_t); extern void *BASE (calloc) (size_t, size_t); extern void *BASE (realloc) (void *, size_t);
static long fail_at = -1, count;
static int hit (void) { return fail_at >= 0 && ++count == fail_at; }
/* fresh memory is filled with junk (0xBE), as a debugging allocator would: an element that is freed or used before it is
   initialised must not get away with the zeroes a fresh page happens to hold (this is how F33 escaped the first version) */
extern size_t malloc_usable_size (void *);
void *malloc (size_t n) { void *p; if (hit ()) return NULL; p = __libc_malloc (n); if (p != NULL) memset (p, 0xBE, n); return p; }
void *calloc (size_t a, size_t b) { return hit () ? NULL : __libc_calloc (a, b); }
void *realloc (void *p, size_t n)
{ size_t old = p != NULL ? malloc_usable_size (p) : 0; void *q; if (hit ()) return NULL; q = __libc_realloc (p, n); if (q != NULL && n > old) memset ((char *) q + old, 0xBE, n - old); return q; }
static const int *toks; static int ntok, pos;
static int rd (void **a) { *a = NULL; return pos < ntok ? toks[pos++] : -1; }
static void er (int a, void *b, int c, void *d, int e, void *f) { (void) a; (void) b; (void) c; (void) d; (void) e; (void) f; }
static const char *DESC = "TERM NUM = 300;\nE : E '+' T # plus (0 2) | T # 0 ;\nT : NUM # 0 | '(' E ')' # 1 | error # - ;\n";
static int k1, r1; static const char *rhs_ab[] = {"a", "S", NULL}, *rhs_e[] = {NULL}; static int tr0[] = {-1};
static const char *rt (int *code) { if (k1++) return NULL; *code = 'a'; return "a"; }
static const char *rr (const char ***rhs, const char **an, int *cost, int **tr) { *an = NULL; *cost = 0; *tr = tr0; if (r1 == 0) { r1++; *rhs = rhs_ab; return "S"; } if (r1 == 1) { r1++; *rhs = rhs_e; return "S"; } return NULL; }
#define NLONG 61
#define NAMB 6
static int longs[NLONG], longbad[NLONG], amb_in[NAMB], longs_ready;
static const char *AMBDESC = "S : S S # n1 1 (0 1) | S S # n2 2 (0 1) | 'a' # l 1 (0) | 'a' # m 2 (0) ;\n";
static int other_ok (struct grammar *o)
{ static const int t[] = {300, '+', 300}; struct yaep_tree_node *root; int amb, rc; toks = t; ntok = 3; pos = 0; rc = yaep_parse (o, rd, er, NULL, NULL, &root, &amb); if (rc == 0 && root != NULL) yaep_free_tree (root, NULL, NULL); return rc == 0 && root != NULL && yaep_error_code (o) == 0; }
/* one experiment in the child: returns 0 ok, 1 wrong outcome, 2 call succeeded (k beyond the last request) */
static int experiment (int which, long k)
{
  struct grammar *other = yaep_create_grammar (), *g = NULL; struct yaep_tree_node *root = NULL; int amb, rc = 0, ok = 1, cfg_one = 1, cfg_cost = 0, cfg_la = 1;
  static const int sent[] = {300, '+', '(', 300, ')'}, nons[] = {300, '+', '+', 300, ')', 300};
  if (other == NULL || yaep_parse_grammar (other, 1, DESC) != 0) return 1;
  if (which != 0) { g = yaep_create_grammar (); if (g == NULL) return 1; }
  if (!longs_ready) { int i; for (i = 0; i < NLONG; i++) { longs[i] = (i % 2) ? '+' : 300; longbad[i] = (i % 7 == 3) ? ')' : longs[i]; } for (i = 0; i < NAMB; i++) amb_in[i] = 'a'; longs_ready = 1; }
  if (which >= 3 && yaep_parse_grammar (g, which >= 8 ? 0 : 1, which >= 8 ? AMBDESC : DESC) != 0) return 1;
  if (which == 8) { cfg_one = 0; cfg_cost = 1; }
  if (which == 9) { cfg_one = 1; cfg_cost = 1; }      /* make_parse switches the one-parse flag off for the time of its work (F42) */
  if (which == 7) cfg_one = 0;
  if (which >= 3 && which <= 6) { cfg_la = which == 5 ? 2 : 1; cfg_one = which == 4 ? 0 : 1; }
  if (which >= 3) { yaep_set_lookahead_level (g, cfg_la); yaep_set_one_parse_flag (g, cfg_one); yaep_set_cost_flag (g, cfg_cost); }
  count = 0; fail_at = k;
  switch (which)
    {
    case 0: g = yaep_create_grammar (); fail_at = -1; if (count < k) { if (g) yaep_free_grammar (g); yaep_free_grammar (other); return 2; } ok = g == NULL; break;
    case 1: rc = yaep_parse_grammar (g, 1, DESC); break;
    case 2: k1 = r1 = 0; rc = yaep_read_grammar (g, 1, rt, rr); break;
    case 3: case 5: toks = sent; ntok = 5; pos = 0; rc = yaep_parse (g, rd, er, NULL, NULL, &root, &amb); break;
    case 6: toks = longs; ntok = NLONG; pos = 0; rc = yaep_parse (g, rd, er, NULL, NULL, &root, &amb); break;                /* growth of the token array, the parser list, the tables */
    case 7: toks = longbad; ntok = NLONG; pos = 0; rc = yaep_parse (g, rd, er, NULL, NULL, &root, &amb); break;              /* error recovery over a long input */
    case 9:
    case 8: toks = amb_in; ntok = NAMB; pos = 0; rc = yaep_parse (g, rd, er, NULL, NULL, &root, &amb); break;                /* ambiguous grammar, all parses, cost flag: DAG building and pruning */
    case 4: toks = nons; ntok = 6; pos = 0; rc = yaep_parse (g, rd, er, NULL, NULL, &root, &amb); break;
    }
  fail_at = -1;
  if (which != 0)
    {
      if (count < k) { if (root) yaep_free_tree (root, NULL, NULL); yaep_free_grammar (g); yaep_free_grammar (other); return 2; }
      ok = rc == YAEP_NO_MEMORY && yaep_error_code (g) == YAEP_NO_MEMORY && root == NULL;
      /* the object is still usable: it can be defined and parsed again, and freed */
      /* ... with the settings the caller made (C14 / C15) */
      if (ok && which >= 3) ok = yaep_set_one_parse_flag (g, cfg_one) == cfg_one && yaep_set_cost_flag (g, cfg_cost) == cfg_cost && yaep_set_lookahead_level (g, cfg_la) == cfg_la;
      if (ok && which >= 3) { if (which >= 8) { toks = amb_in; ntok = 3; } else { toks = sent; ntok = 5; } pos = 0; ok = yaep_parse (g, rd, er, NULL, NULL, &root, &amb) == 0 && root != NULL; if (root) yaep_free_tree (root, NULL, NULL); }
      yaep_free_grammar (g);
    }
  ok = ok && other_ok (other);
  yaep_free_grammar (other);
  return ok ? 0 : 1;
}
int main (void)
{
  static const char *name[] = {"yaep_create_grammar", "yaep_parse_grammar", "yaep_read_grammar", "yaep_parse(sentence)", "yaep_parse(non-sentence,all-parses)", "yaep_parse(sentence,lookahead2)", "yaep_parse(61_tokens)", "yaep_parse(61_tokens_with_errors,all-parses)", "yaep_parse(ambiguous,all-parses,cost)", "yaep_parse(ambiguous,one-parse,cost)"};
  int which; int anybad = 0;
  for (which = 0; which < 10; which++)
    {
      long k, n = 0, badn = 0, first_bad = 0, crashes = 0;
      for (k = 1; k < 5000; k++)
        {
          int st; pid_t p; fflush (NULL); p = fork ();
          if (p == 0) { int r = experiment (which, k); _exit (r); }
          waitpid (p, &st, 0);
          if (WIFEXITED (st) && WEXITSTATUS (st) == 2) break;
          n++;
          if (!(WIFEXITED (st) && WEXITSTATUS (st) == 0)) { badn++; if (!first_bad) first_bad = k; if (!WIFEXITED (st)) crashes++;
            fprintf (stderr, "  %s k=%ld: %s %d\n", name[which], k, WIFEXITED (st) ? "exit" : "signal", WIFEXITED (st) ? WEXITSTATUS (st) : WTERMSIG (st)); }
        }
      printf ("CASE alloc_fail.%s %ld %s", name[which], n, badn ? "FAIL" : "OK");
      if (badn) printf (" %ld of %ld failure points misbehave (first k=%ld, %ld crash)", badn, n, first_bad, crashes);
      printf (" the k-th memory request fails, every k\n");
      anybad |= badn != 0;
    }
  return anybad;
}
