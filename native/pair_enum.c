/* N(k) stand-in for the whole-parse ownership statement of C13 on the REAL library: for every description of the family generated in
   native/desc_diff_enum.c and every input of length <= INLEN, with the caller's parse_alloc / parse_free / termcb tracking every block:
   (1) every block passed to parse_free came from parse_alloc of THIS parse and is passed at most once, never NULL;
   (2) when yaep_parse returns, everything reachable from the root is still allocated - also after yaep_free_grammar;
   (3) yaep_free_tree then releases every block of the tree exactly once, termcb once per TERM node, and no block of this parse
       stays unreleased. */
#define main desc_diff_main
#include "desc_diff_enum.c"
#undef main
#define MAXB 4096
#ifndef PAIR_SUM
#define PAIR_SUM 6
#endif
static void *blk[MAXB]; static int state[MAXB], nb; static long viol;      /* state: 1 live, 2 freed */
static void *t_alloc (int n) { void *p = malloc (n > 0 ? n : 1); if (nb < MAXB) { blk[nb] = p; state[nb++] = 1; } return p; }
static void t_free (void *p) { int i; if (p == NULL) { viol++; return; } for (i = nb - 1; i >= 0; i--) if (blk[i] == p) { if (state[i] != 1) viol++; state[i] = 2; return; } viol++; }
static int nterm_nodes, ntermcb;
static void t_termcb (struct yaep_term *t) { (void) t; ntermcb++; }
static int walk_ok; static struct yaep_tree_node *seen[MAXB]; static int nseen;
static int live (void *p) { int i; for (i = nb - 1; i >= 0; i--) if (blk[i] == p) return state[i] == 1; return 0; }
static void walk (struct yaep_tree_node *n)
{
  struct yaep_tree_node **c; int i;
  if (n == NULL) return; for (i = 0; i < nseen; i++) if (seen[i] == n) return; if (nseen < MAXB) seen[nseen++] = n;
  if (!live (n)) { walk_ok = 0; return; }
  switch (n->type) { case YAEP_TERM: nterm_nodes++; break;
    case YAEP_ANODE: if (!live ((void *) n->val.anode.name)) walk_ok = 0; for (c = n->val.anode.children; *c; c++) walk (*c); break;
    case YAEP_ALT: walk (n->val.alt.node); walk (n->val.alt.next); break; default: break; }
}
static long pcases, pbad; static int pshown;
static void pair_one (int one_parse, int cost)
{
  struct grammar *g = yaep_create_grammar (); struct yaep_tree_node *root = NULL; int amb, rc, i, bad = 0;
  if (yaep_parse_grammar (g, 0, text) != 0) { yaep_free_grammar (g); return; }
  yaep_set_one_parse_flag (g, one_parse); yaep_set_cost_flag (g, cost);
  nb = 0; viol = 0; pos = 0; nerr = 0;
  rc = yaep_parse (g, rd, er, t_alloc, t_free, &root, &amb);
  walk_ok = 1; nseen = 0; nterm_nodes = 0; if (rc == 0) walk (root);
  if (viol || !walk_ok) bad = 1;
  yaep_free_grammar (g);
  nseen = 0; { int save = nterm_nodes; nterm_nodes = 0; if (rc == 0) walk (root); nterm_nodes = save; } if (!walk_ok) bad = 1;      /* the tree survives the grammar */
  ntermcb = 0; if (rc == 0 && root != NULL) yaep_free_tree (root, t_free, t_termcb);
  if (viol || (rc == 0 && ntermcb != nterm_nodes)) bad = 1;
  for (i = 0; i < nb; i++) if (state[i] == 1) bad = 1;                  /* a block of this parse was never released */
  pcases++;
  if (bad) { pbad++; if (pshown++ < 4) fprintf (stderr, "OWNERSHIP VIOLATION one_parse=%d cost=%d input len %d [%d %d %d] rc=%d viol=%ld termcb=%d/%d for: %s", one_parse, cost, ntok, ntok > 0 ? toks[0] : -1, ntok > 1 ? toks[1] : -1, ntok > 2 ? toks[2] : -1, rc, viol, ntermcb, nterm_nodes, text); }
  for (i = 0; i < nb; i++) free (blk[i]);
}
static void pair_grammar (void)
{
  static const int T[] = {'a', 256, 7}; int in[3], len, a, b, c, op, co;
  mktext ();
  for (len = 0; len <= INLEN; len++) for (a = 0; a < (len >= 1 ? 3 : 1); a++) for (b = 0; b < (len >= 2 ? 3 : 1); b++) for (c = 0; c < (len >= 3 ? 3 : 1); c++)
    for (op = 0; op < 2; op++) for (co = 0; co < 2; co++) { in[0] = T[a]; in[1] = T[b]; in[2] = T[c]; toks = in; ntok = len; pair_one (op, co); }
}
static void penum_alt (int i)
{
  int n, s0, s1, tf, k;
  if (i == nalt) { int a, j; uses_N = uses_a = 0; for (a = 0; a < nalt; a++) for (j = 0; j < A[a].n; j++) { if (A[a].sym[j] == 2) uses_N = uses_a = 1; if (A[a].sym[j] == 0) uses_a = 1; } pair_grammar (); return; }
  for (n = 0; n <= 2; n++) for (s0 = 0; s0 < (n >= 1 ? NSYM : 1); s0++) for (s1 = 0; s1 < (n >= 2 ? NSYM : 1); s1++)
    for (tf = 0; tf <= 6; tf++) for (k = 0; k < ((tf == 2 || tf == 4 || tf == 5) ? (n > 0 ? n : 1) : 1); k++)
      { if ((tf == 2 || tf == 4 || tf == 5) && n == 0) continue;
        A[i].n = n; A[i].sym[0] = s0; A[i].sym[1] = s1; A[i].tform = tf; A[i].k = k; A[i].cost = 5; penum_alt (i + 1); }
}
/* second family: AMBIGUOUS inputs with abstract nodes of different costs, so that cost pruning has provisional minima that are superseded,
   single winners, ties, and shared sub-DAGs: 2 or 3 alternatives for one 'a' with costs from {1,2,3} in every order, flat and one level down
   (S : P P over the input a a), one / all parses, with / without cost flag */
static void pair_cost_family (void)
{
  static const int in[] = {'a', 'a', 'a'}; int c1, c2, c3, three, shape, op, co, n;
  for (shape = 0; shape < 3; shape++) for (three = 0; three < 2; three++)
    for (c1 = 1; c1 <= 3; c1++) for (c2 = 1; c2 <= 3; c2++) for (c3 = 1; c3 <= (three ? 3 : 1); c3++)
      {
        n = 0;
        if (shape == 0) n += sprintf (text + n, "S : A # 0 | B # 0%s ;\n", three ? " | C # 0" : "");
        else if (shape == 1) n += sprintf (text + n, "S : P P # top 1 (0 1) ;\nP : A # 0 | B # 0%s ;\n", three ? " | C # 0" : "");
        else n += sprintf (text + n, "S : A # w 1 (0) | B # w 1 (0)%s ;\n", three ? " | C # w 2 (0)" : "");
        n += sprintf (text + n, "A : 'a' # x %d (0) ;\nB : 'a' # y %d (0) ;\n", c1, c2);
        if (three) n += sprintf (text + n, "C : 'a' # z %d (0) ;\n", c3);
        for (op = 0; op < 2; op++) for (co = 0; co < 2; co++) { toks = in; ntok = shape == 1 ? 2 : 1; pair_one (op, co); }
      }
}
/* third family: longer ambiguous sums, so that the table of blocks to keep (reserv_mem_tab) of the cost pruning grows past its load limit
   while nodes are being released (needs >= 5 operands; suggested by the seeded change C13-m6) */
static void pair_sum_family (void)
{
  static int in[2 * 8]; int nop, op, co, form, i;
  for (i = 0; i < 16; i++) in[i] = i % 2 == 0 ? 'a' : '+';
  for (form = 0; form < 3; form++) for (nop = 2; nop <= PAIR_SUM; nop++) for (op = 0; op < 2; op++) for (co = 0; co < 2; co++)
    {
      sprintf (text, form == 0 ? "E : E '+' E # add 1 (0 2) | 'a' # 0 ;\n" : form == 1 ? "E : E '+' E # add 1 (0 1 2) | 'a' # leaf 2 (0) ;\n" : "E : E '+' E # add 1 (2 - 0) | E '+' E # sub 2 (0 2) | 'a' # 0 ;\n");
      toks = in; ntok = 2 * nop - 1; pair_one (op, co);
    }
}
int main (void)
{
  pair_cost_family ();
  pair_sum_family ();
  for (nalt = 1; nalt <= PAIR_ALTS; nalt++) penum_alt (0);
  printf ("CASE parse_memory_ownership %ld %s parse_free only gets blocks of this parse, once, never NULL; the tree is intact after the parse and after yaep_free_grammar; yaep_free_tree releases every block once (ambiguous cost family of 2-3 alternatives with costs 1..3 in every order, flat / nested / under a common node; descriptions of <= %d alternatives, inputs of length <= %d, one/all parses, with/without cost flag)\n", pcases, pbad ? "FAIL" : "OK", PAIR_ALTS, INLEN);
  return pbad != 0;
}
