#!/bin/bash
# thorough_all.sh : run the thorough command of every claimed property once, print exit code, wall time and the summary lines (used through `vp run` to validate the thorough tier)
cd "$(dirname "$0")/.."
for p in C04 C10 C11 C13 C14 C15 C17 C19 C12; do
  s=$(date +%s); out=$(./check $p --tier thorough 2>&1); rc=$?; e=$(date +%s)
  echo "== $p rc=$rc wall=$((e-s))s"; echo "$out" | grep "UNDEC\|^VIOL\|^KNOWN\|^OK\|obligation failed" | cut -c1-220 | head -12
done
