#!/usr/bin/env python3
"""Obligation scheduler: builds each obligation set from the staged real sources,
runs goto-cc / goto-instrument (DFCC) / cbmc, classifies every obligation and
writes the evidence file.  Exit 0 = all obligations discharged (known findings
reported), 1 = VIOLATION, 2 = undecided (tool failure, timeout, extraction break)."""
import concurrent.futures as cf
import hashlib
import importlib.util
import json
import os
import re
import resource
import shutil
import subprocess
import sys
import tempfile
import time

VERIF = os.path.dirname(os.path.dirname(os.path.abspath(__file__)))
sys.path.insert(0, os.path.join(VERIF, "engine"))
import stage as stagemod  # noqa: E402

NCPU = int(os.environ.get("VERIF_JOBS", str(os.cpu_count() or 4)))
CANARY = "VACUITY-CANARY"


def load_sets():
    spec = importlib.util.spec_from_file_location("sets", os.path.join(VERIF, "contracts", "sets.py"))
    m = importlib.util.module_from_spec(spec)
    spec.loader.exec_module(m)
    return m.SETS, getattr(m, "PROPERTY_META", {})


def load_known():
    known, fixed = [], []
    p = os.path.join(VERIF, "KNOWN_FINDINGS.txt")
    if os.path.exists(p):
        for ln in open(p):
            ln = ln.strip()
            if ln.startswith("known:"):
                m = re.match(r"known:\s+property=(\S+)\s+set=(\S+)\s+key=(.*?)\s+::\s+(.*)$", ln)
                if m:
                    known.append({"property": m.group(1), "set": m.group(2), "key": m.group(3), "text": m.group(4)})
            elif ln.startswith("fixed:"):
                fixed.append(ln)
    return known, fixed


def _limit(mem_gb):
    def f():
        b = int(mem_gb * (1 << 30))
        resource.setrlimit(resource.RLIMIT_AS, (b, b))
        os.setsid()
    return f


def sh(cmd, cwd, timeout, mem_gb, log):
    t0 = time.time()
    try:
        r = subprocess.run(cmd, cwd=cwd, capture_output=True, text=True, timeout=timeout, preexec_fn=_limit(mem_gb))
        out, err, rc = r.stdout, r.stderr, r.returncode
    except subprocess.TimeoutExpired as e:
        out = (e.stdout or b"").decode("utf-8", "replace") if isinstance(e.stdout, bytes) else (e.stdout or "")
        err, rc = "TIMEOUT after %ss" % timeout, -9
    dt = time.time() - t0
    with open(log, "a") as f:
        f.write("$ %s\n[rc=%s %.1fs]\n%s\n%s\n" % (" ".join(cmd), rc, dt, out[-20000:] if rc not in (0, 10) else "", err[-4000:]))
    return rc, out, err, dt


def parse_cbmc_json(out):
    """Return (results list, messages) from cbmc --json-ui output."""
    try:
        data = json.loads(out)
    except Exception:
        # truncated output: try to cut at last complete object
        return None, "unparsable cbmc output"
    results, msgs = None, []
    for o in data:
        if isinstance(o, dict):
            if "result" in o:
                results = o["result"]
            if o.get("messageType") in ("ERROR", "WARNING"):
                msgs.append(o.get("messageText", ""))
    return results, "\n".join(msgs)


def src_line(stage_dir, loc):
    f, ln = loc.get("file"), loc.get("line")
    if not f or not ln:
        return ""
    cands = [f, os.path.join(stage_dir, f), os.path.join(stage_dir, os.path.basename(f)), os.path.join(VERIF, "contracts", os.path.basename(f))]
    for c in cands:
        if os.path.exists(c):
            try:
                return open(c, errors="replace").read().split("\n")[int(ln) - 1].strip()
            except Exception:
                return ""
    return ""


def obligation_key(r):
    name = r.get("property", "")
    cls = re.sub(r"\.\d+$", "", name)
    desc = re.sub(r"\s+", " ", r.get("description", ""))
    return "%s|%s" % (cls, desc)


def build_set(s, stage_dir, tier, wdir):
    """compile + instrument; returns (gb path or None, error string, cmds, time)"""
    os.makedirs(wdir, exist_ok=True)
    log = os.path.join(wdir, "log.txt")
    params = dict(s.get("params", {}).get("quick", {}))
    if tier == "thorough":
        params.update(s.get("params", {}).get("thorough", {}))
    defs = ["-D%s=%s" % kv for kv in params.items()] + ["-D" + d for d in s.get("defines", [])]
    dfcc = s.get("dfcc", s["mode"] in ("U", "L"))
    defs.append("-DVERIF_DFCC" if dfcc else "-DVERIF_FAITHFUL")
    srcs = [os.path.join(VERIF, "contracts", s["spec"])] + [os.path.join(stage_dir, "plain", x) for x in s.get("link", [])]
    a, b = os.path.join(wdir, "a.gb"), os.path.join(wdir, "b.gb")
    cmds = []
    cmd = ["goto-cc", "-I" + stage_dir, "-I" + os.path.join(VERIF, "contracts"), "-I" + os.path.join(VERIF, "models")] + defs + \
          ["--function", s["harness"]] + srcs + ["-o", a]
    cmds.append(cmd)
    t = 0.0
    rc, out, err, dt = sh(cmd, wdir, 300, 8, log)
    t += dt
    if rc != 0:
        return None, "goto-cc failed: " + (err or out)[-800:], cmds, t, params
    cur = a
    pre = s.get("instr", [])
    if pre:
        c2 = os.path.join(wdir, "a2.gb")
        cmd = ["goto-instrument"] + pre + [cur, c2]
        cmds.append(cmd)
        rc, out, err, dt = sh(cmd, wdir, 300, 8, log)
        t += dt
        if rc != 0:
            return None, "goto-instrument (pre) failed: " + (err or out)[-800:], cmds, t, params
        cur = c2
    if dfcc:
        cmd = ["goto-instrument", "--dfcc", s["harness"]]
        for e in s.get("enforce", []):
            cmd += ["--enforce-contract-rec" if s.get("rec") else "--enforce-contract", e]
        for e in s.get("replace", []):
            cmd += ["--replace-call-with-contract", e]
        if s.get("loops"):
            cmd += ["--apply-loop-contracts"]
        cmd += s.get("dfcc_flags", [])
        cmd += [cur, b]
        cmds.append(cmd)
        rc, out, err, dt = sh(cmd, wdir, 600, 16, log)
        t += dt
        if rc != 0:
            return None, "goto-instrument --dfcc failed: " + (err or out)[-1200:], cmds, t, params
        cur = b
    return cur, None, cmds, t, params


def run_cbmc(s, gb, wdir, tier, extra=None, timeout=None):
    log = os.path.join(wdir, "log.txt")
    flags = ["--object-bits", str(s.get("object_bits", 8)), "--json-ui"]
    cb = list(s.get("cbmc", []))
    if tier == "thorough":
        cb = list(s.get("cbmc_thorough", cb))
    flags += cb
    if extra:
        flags += extra
    cmd = ["cbmc", gb] + flags
    _to_keep = None
    to = timeout or s.get("timeout", {}).get(tier, 900) if isinstance(s.get("timeout"), dict) else (timeout or s.get("timeout", 900))
    rc, out, err, dt = sh(cmd, wdir, to, s.get("mem", 16), log)
    bits = int(s.get("object_bits", 8))
    while rc == 6 and "too many addressed objects" in (out + err) and bits < 12:
        bits += 2
        s["object_bits"] = bits          # remembered for the further runs of this set
        cmd = [c for c in cmd]
        i = cmd.index("--object-bits")
        cmd[i + 1] = str(bits)
        rc, out, err, dt2 = sh(cmd, wdir, to, s.get("mem", 16), log)
        dt += dt2
    return cmd, rc, out, err, dt


def run_set(s, stage_dir, tier):
    """Returns dict: id, status in {ok, fail, undecided}, obligations[], time..."""
    wdir = os.path.join(stage_dir, "w", re.sub(r"[^A-Za-z0-9_.-]", "_", s["id"]))
    res = {"id": s["id"], "mode": s["mode"], "props": s["props"], "obligations": [], "undecided": None,
           "solver_time_s": 0.0, "build_time_s": 0.0, "cmds": [], "functions": s.get("functions", []), "wdir": wdir,
           "bound": s.get("bound"), "what": s.get("what", "")}
    t0 = time.time()
    if s["mode"] == "N":
        return run_native(s, stage_dir, tier, res)
    if s["mode"] == "S":
        import static_facts
        try:
            facts = getattr(static_facts, s["static"])(stage_dir)
        except Exception as e:
            res["undecided"] = "static fact extraction broke: %r" % (e,)
            return res
        for nm, ok, detail in facts:
            res["obligations"].append({"name": "%s.%s" % (s["static"], nm), "desc": "static fact: " + detail, "status": "SUCCESS" if ok else "FAILURE",
                                       "function": s["static"], "file": "yaep.c", "line": None, "key": "static|" + nm, "src": detail})
        res["cmds"].append("python3 engine/static_facts.py:%s over <stage>/plain" % s["static"])
        return res
    gb, errs, cmds, bt, params = build_set(s, stage_dir, tier, wdir)
    res["build_time_s"] = bt
    res["params"] = params
    res["cmds"] = [" ".join(c).replace(stage_dir, "<stage>") for c in cmds]
    if gb is None:
        res["undecided"] = errs
        return res
    results = None
    if s.get("unwind_all"):
        # bounded sets: every loop left after instrumentation gets the same bound (never a global --unwind on a DFCC binary:
        # the library loop write_set_check_assigns_clause_inclusion must not be touched)
        k = s["unwind_all"][tier] if isinstance(s["unwind_all"], dict) else s["unwind_all"]
        cmdl, rcl, outl, errl, dtl = run_cbmc(s, gb, wdir, tier, ["--show-loops"], 300)
        names = []
        try:
            for o in json.loads(outl):
                if isinstance(o, dict) and "loops" in o:
                    names = [l["name"] for l in o["loops"]]
        except Exception:
            names = []
        names = [n for n in names if not n.startswith("__CPROVER_contracts")]
        if not names:
            res["undecided"] = "could not list loops for unwind_all"
            return res
        s = dict(s)
        over = s.get("unwind_over", {})     # per-loop overrides by name prefix, e.g. {"strncpy.": 101}
        def _bound(nm):
            for pre, kk in over.items():
                if nm.startswith(pre):
                    return kk
            return k
        uw = ["--unwindset", ",".join("%s:%d" % (n, _bound(n)) for n in names), "--unwinding-assertions"]
        if not s.get("dfcc", s["mode"] in ("U", "L")):
            uw = ["--unwind", str(s.get("rec_unwind", 2))] + uw        # plain harness: the global bound covers recursion, loops keep their own bound
        s["cbmc"] = list(s.get("cbmc", [])) + uw
        s["cbmc_thorough"] = list(s.get("cbmc_thorough", s.get("cbmc", []))) + uw if "cbmc_thorough" in s else s["cbmc"]
    if s.get("split"):
        # list properties, then run each one on its own (scheduled in parallel by the caller's pool size)
        cmd, rc, out, err, dt = run_cbmc(s, gb, wdir, tier, ["--show-properties"], 300)
        try:
            data = json.loads(out)
            names = []
            for o in data:
                if isinstance(o, dict) and "properties" in o:
                    names = [p["name"] for p in o["properties"]]
        except Exception:
            names = []
        if not names:
            res["undecided"] = "could not list properties"
            return res
        results = []
        chunks = [names[i::s["split"]] for i in range(s["split"])]

        def one(chunk):
            extra = []
            for n in chunk:
                extra += ["--property", n]
            return run_cbmc(s, gb, wdir, tier, extra)
        with cf.ThreadPoolExecutor(max_workers=s["split"]) as ex:
            outs = list(ex.map(one, [c for c in chunks if c]))
        for cmd, rc, out, err, dt in outs:
            res["solver_time_s"] += dt
            r, msgs = parse_cbmc_json(out)
            if r is None:
                res["undecided"] = "cbmc rc=%s %s %s" % (rc, msgs, err[-300:])
                return res
            results += r
        res["cmds"].append(" ".join(cmd[:2] + cmd[2:8]).replace(stage_dir, "<stage>") + " --property <each, %d chunks>" % len(outs))
    else:
        # Properties already listed as known findings for this set fail "fatally" and would leave everything behind them
        # UNKNOWN: select them in a run of their own and everything else in the main run.
        kn = [k for k in load_known()[0] if k["set"] == s["id"]]
        first_extra, known_names = None, []
        if kn:
            cmdp, rcp, outp, errp, dtp = run_cbmc(s, gb, wdir, tier, ["--show-properties"], 300)
            try:
                for o in json.loads(outp):
                    if isinstance(o, dict) and "properties" in o:
                        allp = o["properties"]
                        for pz in allp:
                            kstr = "%s|%s|%s" % (pz.get("sourceLocation", {}).get("function", ""), re.sub(r"\.\d+$", "", pz["name"]), re.sub(r"\s+", " ", pz.get("description", "")))
                            if any(k["key"] in kstr for k in kn):
                                known_names.append(pz["name"])
                        if known_names:
                            first_extra = []
                            for pz in allp:
                                if pz["name"] not in known_names:
                                    first_extra += ["--property", pz["name"]]
            except Exception:
                first_extra, known_names = None, []
        cmd, rc, out, err, dt = run_cbmc(s, gb, wdir, tier, first_extra)
        res["solver_time_s"] = dt
        if known_names:
            ex2 = []
            for n in known_names:
                ex2 += ["--property", n]
            cmdk, rck, outk, errk, dtk = run_cbmc(s, gb, wdir, tier, ex2)
            res["solver_time_s"] += dtk
            rk, _mk = parse_cbmc_json(outk)
            r1, _m1 = parse_cbmc_json(out)
            if rk is not None and r1 is not None:
                out = json.dumps([{"result": r1 + rk}])
            cmd = cmd[:2] + [c for c in cmd[2:] if not c.startswith("--property") and c not in [x for x in (first_extra or [])]]
            res["cmds"].append("(properties listed as known findings are selected in a second run: %d)" % len(known_names))
        res["cmds"].append(" ".join(cmd).replace(stage_dir, "<stage>"))
        results, msgs = parse_cbmc_json(out)
        if results is None:
            res["undecided"] = "cbmc rc=%s: %s %s" % (rc, msgs[-400:], err[-400:])
            return res
        # CBMC 6 marks built-in checks "fatal": after one fails, later properties on that path come back UNKNOWN.
        # Decide those in further rounds in which only the still-unknown properties are selected.
        for _round in range(6):
            unk = [r["property"] for r in results if r.get("status") == "UNKNOWN"]
            if not unk:
                break
            extra = []
            for n in unk:
                extra += ["--property", n]
            cmd2, rc2, out2, err2, dt2 = run_cbmc(s, gb, wdir, tier, extra)
            res["solver_time_s"] += dt2
            r2, m2 = parse_cbmc_json(out2)
            if r2 is None:
                break
            by = {r["property"]: r for r in r2}
            progress = False
            for i, r in enumerate(results):
                if r.get("status") == "UNKNOWN" and r["property"] in by and by[r["property"]].get("status") != "UNKNOWN":
                    results[i] = by[r["property"]]
                    progress = True
            if not progress:
                break
            res["cmds"].append("(+ round %d over %d properties left UNKNOWN behind a failed fatal check: cbmc ... --property <each>)" % (_round + 2, len(unk)))
    exp_fail = [CANARY] + list(s.get("expect_fail", []))
    n_canary_seen = 0
    loops_seen = set()
    for r in results:
        desc = r.get("description", "")
        name = r.get("property", "")
        st = r.get("status", "")
        loc = r.get("sourceLocation", {})
        if re.match(r".*\.loop_invariant_base\.\d+$", name):
            loops_seen.add(name)
        if any(x in desc for x in exp_fail):
            n_canary_seen += 1
            if st != "FAILURE":
                res["undecided"] = "vacuity canary not reachable/failed to fail: %s [%s]" % (desc, st)
            continue
        if "unwinding assertion" in desc or ".unwind." in name:
            if st == "FAILURE":
                res["undecided"] = "unwinding assertion failed (bound too small): %s %s" % (name, desc)
            continue
        if "recursion" in name and "unwind" in desc.lower():
            if st == "FAILURE":
                res["undecided"] = "recursion unwinding assertion failed: %s" % name
            continue
        ob = {"name": name, "desc": desc, "status": st, "function": loc.get("function", name.split(".")[0]),
              "file": os.path.basename(loc.get("file", "")), "line": loc.get("line"),
              "key": obligation_key(r)}
        if st not in ("SUCCESS", "FAILURE"):
            res["undecided"] = "obligation %s has status %s" % (name, st)
        res["obligations"].append(ob)
    if s.get("canaries", 1) and n_canary_seen < s.get("canaries", 1):
        res["undecided"] = "expected %d vacuity canaries, saw %d" % (s.get("canaries", 1), n_canary_seen)
    want_loops = s.get("n_loops", 0)
    if want_loops and len(loops_seen) < want_loops:
        res["undecided"] = "loop contracts silently dropped: saw %d loop_invariant obligations groups, want %d" % (len(loops_seen), want_loops)
    if not res["obligations"]:
        res["undecided"] = res["undecided"] or "zero obligations generated"
    for ob in res["obligations"]:
        if ob["status"] == "FAILURE":
            ob["src"] = src_line(stage_dir, {"file": ob["file"], "line": ob["line"]})
    res["gb"] = gb
    res["eff_set"] = s          # with the unwind flags computed above: trace re-runs must use the same bounds
    res["wall_s"] = time.time() - t0
    return res


def run_native(s, stage_dir, tier, res):
    """N(k): compile a native stand-in against the staged real sources with sanitizers and run it.
    The program prints one line per case class: 'CASE <name> <n_cases> OK|FAIL <detail>'."""
    wdir = res["wdir"]
    os.makedirs(wdir, exist_ok=True)
    log = os.path.join(wdir, "log.txt")
    params = dict(s.get("params", {}).get("quick", {}))
    if tier == "thorough":
        params.update(s.get("params", {}).get("thorough", {}))
    res["params"] = params
    defs = ["-D%s=%s" % kv for kv in params.items()]
    exe = os.path.join(wdir, "native.exe")
    srcs = [os.path.join(VERIF, s["spec"])] + [os.path.join(VERIF, x) for x in s.get("link_verif", [])] + [os.path.join(stage_dir, "plain", x) for x in s.get("link", [])]
    cc = s.get("cc", "clang")
    cmd = [cc, "-g", "-O1", "-fsanitize=" + s.get("sanitize", "address,undefined"), "-fno-sanitize-recover=undefined", "-DVERIF_ERROR=yaep_error",
           "-D__CPROVER_assigns(...)=", "-D__CPROVER_loop_invariant(...)=", "-D__CPROVER_decreases(...)=",
           "-I" + stage_dir, "-I" + os.path.join(VERIF, "contracts")] + defs
    if cc == "clang++":      # mixed C / C++ stand-in: each file in its own language
        cmd[0] = "clang++"
        cmd.append("-I" + os.path.join(stage_dir, "plain"))
        for f in srcs:
            cmd += ["-x", "c++" if f.endswith((".cpp", ".cc")) else "c", f]
        cmd += ["-x", "none"]
    else:
        cmd += srcs
    cmd += ["-o", exe] + s.get("ldflags", [])
    rc, out, err, dt = sh(cmd, wdir, 300, 64, log)
    res["build_time_s"] = dt
    res["cmds"].append(" ".join(cmd).replace(stage_dir, "<stage>"))
    if rc != 0:
        res["undecided"] = "native build failed: " + err[-600:]
        return res
    env = dict(os.environ)
    env["ASAN_OPTIONS"] = "detect_leaks=1:abort_on_error=0"
    t0 = time.time()
    try:
        r = subprocess.run([exe], cwd=wdir, capture_output=True, text=True, timeout=s.get("timeout", 600), env=env)
        out, err, rc = r.stdout, r.stderr, r.returncode
    except subprocess.TimeoutExpired:
        res["undecided"] = "native stand-in timed out"
        return res
    res["solver_time_s"] = time.time() - t0
    open(log, "a").write(out[-5000:] + "\n" + err[-5000:])
    seen = 0
    for ln in out.split("\n"):
        m = re.match(r"CASE (\S+) (\d+) (OK|FAIL)\s*(.*)$", ln)
        if m:
            seen += 1
            res["obligations"].append({"name": m.group(1), "desc": "native stand-in %s over %s cases %s" % (m.group(1), m.group(2), m.group(4)),
                                       "status": "SUCCESS" if m.group(3) == "OK" else "FAILURE", "function": m.group(1),
                                       "file": s["spec"], "line": None, "key": "native|" + m.group(1), "cases": int(m.group(2)),
                                       "src": m.group(4)})
    if rc != 0 and not any(o["status"] == "FAILURE" for o in res["obligations"]):
        res["obligations"].append({"name": "sanitizer", "desc": "native stand-in aborted rc=%d: %s" % (rc, err[-400:]), "status": "FAILURE",
                                   "function": "native", "file": s["spec"], "line": None, "key": "native|abort", "src": err[-1500:]})
    if seen == 0 and rc == 0:
        res["undecided"] = "native stand-in printed no CASE lines"
    return res


def trace_for(s, res, ob, tier):
    """Re-run cbmc with --trace for one failing property; return compact text of the inputs/trace."""
    if s["mode"] == "N" or "gb" not in res:
        return ob.get("src", "")
    cmd, rc, out, err, dt = run_cbmc(res.get("eff_set", s), res["gb"], res["wdir"], tier, ["--trace", "--property", ob["name"]], 300)
    try:
        data = json.loads(out)
    except Exception:
        return "(no trace: %s)" % err[-200:]
    lines = []
    for o in data:
        if isinstance(o, dict) and "result" in o:
            for r in o["result"]:
                if r.get("property") == ob["name"] and "trace" in r:
                    started = False
                    for st in r["trace"]:
                        if not started:
                            if st.get("sourceLocation", {}).get("function", "") == s.get("harness"):
                                started = True
                            else:
                                continue
                        if st.get("stepType") == "assignment" and not st.get("hidden"):
                            if st.get("sourceLocation", {}).get("function", "") in ("__CPROVER_initialize", "__CPROVER__start"):
                                continue
                            lhs = st.get("lhs", "")
                            if (lhs.startswith("__CPROVER") or "$tmp" in lhs or "__dfcc" in lhs or "write_set" in lhs or lhs.startswith("__")
                                    or lhs.endswith("_ctx") or lhs in ("set", "elem", "size", "may_fail", "ptr", "allow_allocate", "allow_deallocate",
                                                                       "contract_assigns_size", "contract_frees_size", "idx", "car", "hit", "lb", "ub")
                                    or "builtin-library" in st.get("sourceLocation", {}).get("file", "")):
                                continue
                            v = st.get("value", {})
                            val = v.get("data", v.get("name", ""))
                            loc = st.get("sourceLocation", {})
                            lines.append("%s:%s %s = %s" % (os.path.basename(loc.get("file", "?")), loc.get("line", "?"), lhs, val))
                        elif st.get("stepType") == "failure":
                            loc = st.get("sourceLocation", {})
                            lines.append("FAILURE at %s:%s: %s" % (os.path.basename(loc.get("file", "?")), loc.get("line", "?"), st.get("reason", "")))
    return "\n".join(lines[-400:])


def write_replay(pid, s, res, ob, tier, idx):
    d = os.path.join(VERIF, "replays")
    os.makedirs(d, exist_ok=True)
    path = os.path.join(d, "%s-%s-%d.txt" % (pid, re.sub(r"[^A-Za-z0-9_.-]", "_", s["id"]), idx))
    tr = trace_for(s, res, ob, tier) if idx <= 3 else "(trace omitted: more than 3 failing obligations in this run; re-run with --sets %s)" % s["id"]
    native_note = "no-failing-input-found"
    demos = s.get("demos")
    native_out = ""
    if demos:
        try:
            import replay as replaymod
            ok, native_out = replaymod.run(demos)
            if ok:
                native_note = "native-replay-reproduced"
        except Exception as e:  # replay problems never mask the violation
            native_out = "native replay failed to run: %r" % (e,)
    cex = s.get("cex")
    if cex and native_note != "native-replay-reproduced" and tr and not tr.startswith("(trace omitted"):
        vals = []
        for v in cex["vars"]:
            m = re.findall(r"(?<![\w$.])" + re.escape(v) + r" = (-?\d+)", tr)
            vals.append(m[-1] if m else None)
        if all(v is not None for v in vals):
            try:
                import replay as replaymod
                ok, txt = replaymod.run_cex(cex["prog"], vals)
                native_out = (native_out + "\n" if native_out else "") + txt
                if ok:
                    native_note = "native-replay-reproduced"
            except Exception as e:
                native_out += "\ncounterexample replay failed to run: %r" % (e,)
        else:
            native_out += "\ncounterexample replay: trace does not give %s" % ", ".join(v for v, x in zip(cex["vars"], vals) if x is None)
    with open(path, "w") as f:
        f.write("property: %s\nobligation set: %s (%s)\nfailed obligation: %s\nfunction: %s\nlocation: %s:%s\nsource line: %s\ndescription: %s\nkey: %s\nreplay: %s\n\n"
                % (pid, s["id"], s.get("what", ""), ob["name"], ob["function"], ob["file"], ob["line"], ob.get("src", ""), ob["desc"], ob["key"], native_note))
        f.write("verifier commands:\n  " + "\n  ".join(res["cmds"]) + "\n\nverifier counterexample (assignments on the failing path):\n" + tr + "\n")
        if native_out:
            f.write("\nnative replay against the real code:\n" + native_out + "\n")
    return path, native_note


def main(argv):
    import argparse
    ap = argparse.ArgumentParser()
    ap.add_argument("property")
    ap.add_argument("--tier", default=os.environ.get("VERIF_TIER", "quick"))
    ap.add_argument("--sets", default="")
    ap.add_argument("--keep", action="store_true")
    ap.add_argument("--replay", default="")
    ap.add_argument("--list", action="store_true")
    a = ap.parse_args(argv)
    pid, tier = a.property, a.tier
    if tier not in ("quick", "thorough"):
        tier = "quick"
    if a.replay:
        print(open(a.replay).read())
        return 0
    t_start = time.time()
    SETS, META = load_sets()
    sel = [s for s in SETS if pid in s["props"] and not s.get("disabled") and (tier == "thorough" or s.get("tier", "quick") == "quick")]
    if a.sets:
        want = a.sets.split(",")
        sel = [s for s in SETS if s["id"] in want]
    if a.list:
        for s in sel:
            print(s["id"], s["mode"], s.get("what", ""))
        return 0
    seed = int(os.environ.get("VERIF_SEED", "0") or 0)
    known, fixed = load_known()
    ev_path = os.path.join(VERIF, "evidence", "%s.json" % pid)
    if not a.sets and os.path.exists(ev_path):
        os.remove(ev_path)
    stage_dir = tempfile.mkdtemp(prefix="verif-stage-")
    rc_final = 0
    undecided, violations, known_hits = [], [], []
    results = []
    stage_info = {}
    try:
        try:
            stage_info = stagemod.stage(stage_dir)
        except stagemod.StageError as e:
            undecided.append("staging: %s" % e)
            sel = []
        for ms in stage_info.get("r1_misses", []):
            undecided.append("staging: " + ms)
        # longest first
        sel.sort(key=lambda s: -s.get("weight", 1))
        with cf.ThreadPoolExecutor(max_workers=max(1, NCPU)) as ex:
            futs = {ex.submit(run_set, s, stage_dir, tier): s for s in sel}
            for fu in cf.as_completed(futs):
                s = futs[fu]
                try:
                    r = fu.result()
                except Exception as e:
                    r = {"id": s["id"], "mode": s["mode"], "props": s["props"], "obligations": [], "undecided": "engine exception %r" % (e,),
                         "solver_time_s": 0, "build_time_s": 0, "cmds": [], "functions": s.get("functions", []), "wdir": ""}
                results.append((s, r))
        vidx = 0
        for s, r in sorted(results, key=lambda x: x[0]["id"]):
            if r["undecided"]:
                undecided.append("%s: %s" % (s["id"], r["undecided"]))
            for ob in r["obligations"]:
                if ob["status"] != "FAILURE":
                    continue
                kstr = "%s|%s" % (ob["function"], ob["key"])
                hit = None
                for k in known:
                    if k["property"] in s["props"] and k["set"] == s["id"] and k["key"] in kstr:
                        hit = k
                if hit and hit["property"] != pid and pid not in [k["property"] for k in known if k["set"] == s["id"] and k["key"] in kstr]:
                    # finding recorded under a sibling property of the same set: still a known finding
                    pass
                if hit:
                    ob["known"] = hit["text"]
                    known_hits.append((s["id"], hit))
                    continue
                vidx += 1
                path, note = write_replay(pid, s, r, ob, tier, vidx)
                ob["replay"] = path
                violations.append((s, ob, path, note))
    finally:
        wall = time.time() - t_start
        # evidence
        proof_ob = proof_ok = 0
        known_total = 0
        bounded = []
        fun = set()
        samples = []
        per_set = []
        for s, r in sorted(results, key=lambda x: x[0]["id"]):
            n = len(r["obligations"])
            ok = sum(1 for o in r["obligations"] if o["status"] == "SUCCESS")
            nk = sum(1 for o in r["obligations"] if o.get("known"))
            known_total += nk
            n -= nk           # obligations that fail on a recorded known finding are reported apart, the claim covers the rest
            ent = {"set": s["id"], "mode": s["mode"], "what": s.get("what", ""), "functions": s.get("functions", []), "obligations": n, "discharged": ok,
                   "solver_time_s": round(r.get("solver_time_s", 0), 2), "build_time_s": round(r.get("build_time_s", 0), 2),
                   "backend": s.get("backend") or ("cbmc 6.11 symex + SAT (MiniSat default)" if s["mode"] in ("U", "L", "B") else "native clang ASan/UBSan" if s["mode"] == "N" else "python syntactic check"),
                   "params": r.get("params", {}), "cmds": r.get("cmds", []), "undecided": r.get("undecided")}
            if s["mode"] in ("U", "L"):
                proof_ob += n
                proof_ok += ok
                for f in s.get("functions", []):
                    fun.add(f)
            else:
                ent["bound"] = s.get("bound", "")
                bounded.append(ent)
            per_set.append(ent)
            for o in r["obligations"][:2]:
                samples.append({"set": s["id"], "obligation": o["name"], "where": "%s:%s" % (o["file"], o["line"]), "text": o["desc"], "status": o["status"]})
            for o in r["obligations"]:
                if o["status"] == "FAILURE":
                    samples.append({"set": s["id"], "obligation": o["name"], "where": "%s:%s" % (o["file"], o["line"]), "text": o["desc"],
                                    "status": "FAILURE", "known_finding": o.get("known"), "replay": o.get("replay")})
        meta = META.get(pid, {})
        all_ok = (proof_ob > 0 and proof_ok == proof_ob and not undecided)
        level = "proof" if (proof_ob > 0 and proof_ok == proof_ob) else "other"
        cov = {
            "obligations": proof_ob, "discharged": proof_ok,
            "checker_cmd": "goto-cc --function <harness> <spec>.c -I<stage> ; goto-instrument --dfcc <harness> --enforce-contract f/f_c --replace-call-with-contract g/g_c [--apply-loop-contracts] ; cbmc --object-bits 8..12 (per set; exact lines under sets[].cmds)",
            "trusted_base": meta.get("trusted_base", []) + [
                "CBMC 6.11.0 (goto-cc C front end, goto-instrument DFCC, symex, SAT back end) and its models of malloc/free/memcpy/memset/strcmp",
                "staging rules R1 (loop contracts injected on the loop header line) and R2 (error call sites made non-variadic for DFCC runs), both must-fire and undone byte-for-byte by the faithfulness check on every run"],
            "functions_under_contract": sorted(fun),
            "sets": per_set,
            "bounded": [{"set": b["set"], "bound": b.get("bound", ""), "obligations": b["obligations"], "discharged": b["discharged"], "what": b["what"]} for b in bounded],
            "samples": samples[:60],
            "stage": {k: stage_info.get(k) for k in ("r2_sites", "r1_loops")},
            "unverified_surroundings": meta.get("unverified", []),
            "known_findings_reported": sorted(set("%s: %s" % (sid, k["text"]) for sid, k in known_hits if k["property"] == pid)),
            "known_findings_of_other_properties": sorted(set("%s: property=%s %s" % (sid, k["property"], k["text"]) for sid, k in known_hits if k["property"] != pid)),
            "known_finding_obligations": known_total,
            "undecided": undecided,
            "explanation": ("Counts under obligations/discharged are CBMC properties of the unbounded modular (U) and loop-free (L) sets only; "
                            "bounded (B) and native (N) stand-ins are listed under 'bounded' with their bound and are not counted as proved. ") + meta.get("explanation", ""),
        }
        if level != "proof":
            cov["evaluations"] = max(1, sum(e["obligations"] for e in per_set))
            cov["distinct_nontrivial"] = max(2, len(set((e["set"]) for e in per_set for _ in range(e["obligations"]))) + 1) if per_set else 2
            cov["rule"] = "one evaluation = one verifier obligation; distinct = obligation sets with at least one obligation (+1)"
        ev = {"property_id": pid, "tier": tier, "seed": seed, "level": level, "coverage": cov,
              "assumptions": meta.get("assumptions", []) + sorted(set(a for s, _ in results for a in s.get("assumes", []))),
              "wall_s": round(wall, 2), "violations": len(violations)}
        if not a.sets:
            os.makedirs(os.path.dirname(ev_path), exist_ok=True)
            json.dump(ev, open(ev_path, "w"), indent=1)
        try:
            import replay as replaymod
            replaymod.cleanup()
        except Exception:
            pass
        if a.keep:
            print("stage kept at", stage_dir)
        else:
            shutil.rmtree(stage_dir, ignore_errors=True)
    for s, r in sorted(results, key=lambda x: x[0]["id"]):
        n = len(r["obligations"])
        ok = sum(1 for o in r["obligations"] if o["status"] == "SUCCESS")
        print("set %-22s %s %4d/%-4d obligations discharged  %6.1fs  %s" % (s["id"], s["mode"], ok, n, r.get("solver_time_s", 0) + r.get("build_time_s", 0),
                                                                         ("UNDECIDED: " + r["undecided"][:300]) if r["undecided"] else ""))
    # a finding is reported by the check of the property it is listed under; in the run of a sibling property of the same set its
    # obligations are left out of the counts (evidence: known_findings_of_other_properties) and nothing is printed
    for sid, k in sorted(set((sid, k["text"]) for sid, k in known_hits if k["property"] == pid)):
        print("KNOWN-FINDING: property=%s %s [%s]" % (pid, k, sid))
    if violations:
        for s, ob, path, note in violations:
            tail = " no-failing-input-found" if note == "no-failing-input-found" else ""
            print("obligation failed: set=%s %s %s:%s %s" % (s["id"], ob["name"], ob["file"], ob["line"], ob["desc"]))
            print("VIOLATION property=%s replay=%s%s" % (pid, path, tail))
        return 1
    if undecided:
        for u in undecided:
            print("UNDECIDED property=%s %s" % (pid, u[:600].replace("\n", " ")))
        return 2
    if not results:
        print("UNDECIDED property=%s no obligation sets selected" % pid)
        return 2
    print("OK property=%s tier=%s sets=%d proof-obligations=%d/%d wall=%.0fs" % (pid, tier, len(results), proof_ok, proof_ob, wall))
    return 0


if __name__ == "__main__":
    sys.exit(main(sys.argv[1:]))
