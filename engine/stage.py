#!/usr/bin/env python3
"""Staging: scratch copy of /repo/src (working tree), rule R2 (error call sites
-> VERIF_ERROR), rule R1 (loop-contract injection, same line as the loop header
so line numbers are preserved), bison, and the faithfulness check.

Every rule is must-fire: an anchor that does not match raises StageError, which
the driver turns into exit 2 (extraction break), never into a VIOLATION."""
import glob
import json
import os
import re
import shutil
import subprocess

REPO_SRC = os.environ.get("VERIF_REPO_SRC", "/repo/src")
VERIF = os.path.dirname(os.path.dirname(os.path.abspath(__file__)))


class StageError(Exception):
    pass


def _shadow(text):
    """Same-length copy of C text with comments, strings and char constants blanked."""
    out = list(text)
    i, n = 0, len(text)
    while i < n:
        c = text[i]
        if text.startswith("/*", i):
            j = text.find("*/", i + 2)
            j = n if j < 0 else j + 2
            for k in range(i, j):
                if out[k] != "\n":
                    out[k] = " "
            i = j
        elif text.startswith("//", i):
            j = text.find("\n", i)
            j = n if j < 0 else j
            for k in range(i, j):
                out[k] = " "
            i = j
        elif c == '"' or c == "'":
            q = c
            j = i + 1
            while j < n and text[j] != q:
                if text[j] == "\\":
                    j += 1
                j += 1
            for k in range(i + 1, min(j, n)):
                if out[k] != "\n":
                    out[k] = " "
            i = j + 1
        else:
            i += 1
    return "".join(out)


def _match_paren(sh, i, open_c="(", close_c=")"):
    assert sh[i] == open_c
    d = 0
    for j in range(i, len(sh)):
        if sh[j] == open_c:
            d += 1
        elif sh[j] == close_c:
            d -= 1
            if d == 0:
                return j
    raise StageError("unbalanced %s at offset %d" % (open_c, i))


def find_function(text, sh, name):
    """(body_start, body_end) offsets of the definition of `name` (GNU style:
    name at column 0 followed by ' (' ; body opens with '{' at column 0)."""
    for m in re.finditer(r"^%s \(" % re.escape(name), sh, re.M):
        close = _match_paren(sh, m.end() - 1)
        k = close + 1
        # skip whitespace/newlines (and contract-free K&R nothing) to '{' or ';'
        while k < len(sh) and sh[k] in " \t\n":
            k += 1
        if k < len(sh) and sh[k] == "{":
            return k, _match_paren(sh, k, "{", "}")
    raise StageError("function definition not found: %s" % name)


def _hdr_regex(header):
    toks = re.findall(r"[A-Za-z_0-9]+|\S", header)
    return r"\s*".join(re.escape(t) for t in toks)


def inject_loops(path, entries):
    text = open(path).read()
    ins = []  # (offset, string)
    for e in entries:
        sh = _shadow(text)
        b0, b1 = find_function(text, sh, e["function"])
        rx = re.compile(_hdr_regex(e["header"]))
        ms = [m for m in rx.finditer(text, b0, b1) if sh[m.start()] == text[m.start()]]
        k, of = e.get("occurrence", 1), e.get("of", 1)
        if len(ms) != of or k > of:
            raise StageError("loop header matched %d times, expected %d (R1): %s in %s: %r"
                             % (len(ms), of, e["function"], path, e["header"]))
        m = ms[k - 1]
        end = m.end()
        # the header must end with ')' and the next code char must be body start ('{' or statement) / ';' for do-while
        if text[end - 1] != ")":
            raise StageError("loop header must end with ')': %r" % e["header"])
        clause = " " + " ".join(e["clauses"]) + " /*VERIF-R1*/"
        ins.append((end, clause))
    ins.sort()
    out, last = [], 0
    for off, s in ins:
        out.append(text[last:off])
        out.append(s)
        last = off
    out.append(text[last:])
    open(path, "w").write("".join(out))
    return len(ins)


R2_RX = re.compile(r"\byaep_error(\s*\()(?!\s*int code)")


def stage(dst, loops_files=None):
    """Populate dst with the staged sources. Returns info dict."""
    os.makedirs(dst, exist_ok=True)
    files = []
    for pat in ("*.c", "*.h", "*.y", "*.cpp"):
        files += glob.glob(os.path.join(REPO_SRC, pat))
    if not files:
        raise StageError("no sources under %s" % REPO_SRC)
    orig = {}
    for f in files:
        b = os.path.basename(f)
        if b == "sgramm.c":
            continue
        shutil.copy(f, os.path.join(dst, b))
        orig[b] = open(f, "rb").read()
    info = {"r2_sites": {}, "r1_loops": 0, "files": sorted(orig)}
    # R2
    total = 0
    for b in ("yaep.c", "sgramm.y"):
        p = os.path.join(dst, b)
        s = open(p).read()
        s2, n = R2_RX.subn(r"VERIF_ERROR\1", s)
        left = len(re.findall(r"\byaep_error\s*\(", s2))
        want_left = 2 if b == "yaep.c" else 0
        if n < 1 or left != want_left:
            raise StageError("R2 did not fire as expected in %s: renamed %d, left %d" % (b, n, left))
        open(p, "w").write(s2)
        info["r2_sites"][b] = n
        total += n
    info["r2_total"] = total
    # R1
    entries = []
    for lf in (loops_files if loops_files is not None else sorted(glob.glob(os.path.join(VERIF, "contracts", "*.loops")))):
        entries += json.load(open(lf))
    byfile = {}
    for e in entries:
        byfile.setdefault(e["file"], []).append(e)
    for b, es in byfile.items():
        info["r1_loops"] += inject_loops(os.path.join(dst, b), es)
    info["r1_entries"] = [(e["file"], e["function"], e["header"]) for e in entries]
    # faithfulness: undo R1 and R2, compare with the working tree byte for byte
    for b, ob in orig.items():
        s = open(os.path.join(dst, b), "rb").read().decode("latin-1")
        s = re.sub(r" __CPROVER_[^\n]*? /\*VERIF-R1\*/", "", s)
        s = re.sub(r"\bVERIF_ERROR(\s*\()", r"yaep_error\1", s)
        if s.encode("latin-1") != ob:
            raise StageError("faithfulness check failed for %s" % b)
    # bison exactly as src/CMakeLists.txt does (bison_target -> bison -o sgramm.c sgramm.y)
    r = subprocess.run(["bison", "-o", "sgramm.c", "sgramm.y"], cwd=dst, capture_output=True, text=True)
    if r.returncode != 0 or not os.path.exists(os.path.join(dst, "sgramm.c")):
        raise StageError("bison failed: %s" % r.stderr[-400:])
    return info


if __name__ == "__main__":
    import sys
    print(json.dumps(stage(sys.argv[1]), indent=1))
