#!/usr/bin/env python3
"""Staging: scratch copy of /repo/src (working tree), rule R2 (error call sites
-> VERIF_ERROR), rule R1 (loop-contract injection, same line as the loop header
so line numbers are preserved), bison, and the faithfulness check.

Every rule is must-fire: an anchor that does not match raises StageError, which
the driver turns into exit 2 (extraction break), never into a VIOLATION."""
import glob
import json
import os
import re
import shutil
import subprocess

REPO_SRC = os.environ.get("VERIF_REPO_SRC", "/repo/src")
VERIF = os.path.dirname(os.path.dirname(os.path.abspath(__file__)))


class StageError(Exception):
    pass


def _shadow(text):
    """Same-length copy of C text with comments, strings and char constants blanked."""
    out = list(text)
    i, n = 0, len(text)
    while i < n:
        c = text[i]
        if text.startswith("/*", i):
            j = text.find("*/", i + 2)
            j = n if j < 0 else j + 2
            for k in range(i, j):
                if out[k] != "\n":
                    out[k] = " "
            i = j
        elif text.startswith("//", i):
            j = text.find("\n", i)
            j = n if j < 0 else j
            for k in range(i, j):
                out[k] = " "
            i = j
        elif c == '"' or c == "'":
            q = c
            j = i + 1
            while j < n and text[j] != q:
                if text[j] == "\\":
                    j += 1
                j += 1
            for k in range(i + 1, min(j, n)):
                if out[k] != "\n":
                    out[k] = " "
            i = j + 1
        else:
            i += 1
    return "".join(out)


def _match_paren(sh, i, open_c="(", close_c=")"):
    assert sh[i] == open_c
    d = 0
    for j in range(i, len(sh)):
        if sh[j] == open_c:
            d += 1
        elif sh[j] == close_c:
            d -= 1
            if d == 0:
                return j
    raise StageError("unbalanced %s at offset %d" % (open_c, i))


def find_function(text, sh, name):
    """(body_start, body_end) offsets of the definition of `name` (GNU style:
    name at column 0 followed by ' (' ; body opens with '{' at column 0)."""
    for m in re.finditer(r"^%s \(" % re.escape(name), sh, re.M):
        close = _match_paren(sh, m.end() - 1)
        k = close + 1
        # skip whitespace/newlines (and contract-free K&R nothing) to '{' or ';'
        while k < len(sh) and sh[k] in " \t\n":
            k += 1
        if k < len(sh) and sh[k] == "{":
            return k, _match_paren(sh, k, "{", "}")
    raise StageError("function definition not found: %s" % name)


def _hdr_regex(header):
    toks = re.findall(r"[A-Za-z_0-9]+|\S", header)
    return r"\s*".join(re.escape(t) for t in toks)


def inject_loops(path, entries):
    text = open(path).read()
    ins = []  # (offset, string)
    misses = []
    for e in entries:
        sh = _shadow(text)
        try:
            b0, b1 = find_function(text, sh, e["function"])
        except StageError as ex:
            misses.append("%s: %s" % (e["function"], ex))
            continue
        rx = re.compile(_hdr_regex(e["header"]))
        ms = [m for m in rx.finditer(text, b0, b1) if sh[m.start()] == text[m.start()]]
        k, of = e.get("occurrence", 1), e.get("of", 1)
        if len(ms) != of or k > of:
            # the loop this contract belongs to is not there any more (the code changed): the run goes on without it; sets that
            # still fail report their violations, sets that pass are UNDECIDED (a proof that lost a loop contract is not claimed)
            misses.append("loop header matched %d times, expected %d (R1): %s in %s: %r" % (len(ms), of, e["function"], os.path.basename(path), e["header"]))
            continue
        m = ms[k - 1]
        end = m.end()
        # the header must end with ')' and the next code char must be body start ('{' or statement) / ';' for do-while
        if text[end - 1] != ")":
            raise StageError("loop header must end with ')': %r" % e["header"])
        clause = " " + " ".join(e["clauses"]) + " /*VERIF-R1*/"
        ins.append((end, clause))
    ins.sort()
    out, last = [], 0
    for off, s in ins:
        out.append(text[last:off])
        out.append(s)
        last = off
    out.append(text[last:])
    open(path, "w").write("".join(out))
    return len(ins), misses


R2_RX = re.compile(r"\byaep_error(\s*\()(?!\s*int code)")


R3_SITES = [
    # (file, function, generated signature, condition regex)
    ("yaep.c", "yaep_create_grammar", "static struct grammar *verif_unwind_create_grammar (void)", r"if \(setjmp \(error_longjump_buff\) != 0\)"),
    ("yaep.c", "yaep_read_grammar", "static int verif_unwind_read_grammar (int code)", r"if \(\(code = setjmp \(error_longjump_buff\)\) != 0\)"),
    ("yaep.c", "yaep_parse", "static int verif_unwind_parse (int code, int tok_init_p, int parse_init_p, int saved_one_parse_p)", r"if \(\(code = setjmp \(error_longjump_buff\)\) != 0\)"),
    ("sgramm.y", "set_sgrammar", "static int verif_unwind_set_sgrammar (int err_code)", r"if \(\((?:err_)?code = setjmp \(error_longjump_buff\)\) != 0\)"),
]


def extract_unwind(dst):
    """Rule R3: copy (not move) the compound statement controlled by each `if (... setjmp (error_longjump_buff) ...)`
    into a generated function.  Must-fire: exactly one such `if` per listed function, body is a block ending in return."""
    out = ["/* generated by stage.py rule R3 on every run: the error branches of the four setjmp sites, text copied verbatim */\n"]
    n = 0
    for f, fn, sig, rx in R3_SITES:
        text = open(os.path.join(dst, f)).read()
        sh = _shadow(text)
        b0, b1 = find_function(text, sh, fn)
        ms = [m for m in re.finditer(rx, text[b0:b1])]
        if len(ms) != 1:
            raise StageError("R3: expected exactly one setjmp test in %s, found %d" % (fn, len(ms)))
        k = b0 + ms[0].end()
        while sh[k] in " \t\n":
            k += 1
        if sh[k] != "{":
            raise StageError("R3: setjmp test in %s is not followed by a block" % fn)
        e = _match_paren(sh, k, "{", "}")
        body = text[k:e + 1]
        if not re.search(r"return\b[^;]*;\s*}\s*$", body):
            raise StageError("R3: error branch of %s does not end in return" % fn)
        line = text.count("\n", 0, k) + 1
        out.append('%s\n#line %d "%s"\n%s\n' % (sig, line, f, body))
        n += 1
    open(os.path.join(dst, "r3_unwind.inc"), "w").write("".join(out))
    return n


def extract_codes_tail(dst):
    """Rule R4: copy the tail of set_sgrammar (duplicate elimination and implicit code assignment: from the comment that introduces
    the first qsort up to `return 0;`) into a generated function of its own.  Must-fire on both anchors; nothing is dropped."""
    text = open(os.path.join(dst, "sgramm.y")).read()
    sh = _shadow(text)
    b0, b1 = find_function(text, sh, "set_sgrammar")
    body = text[b0:b1 + 1]
    m0 = [m for m in re.finditer(r"/\* sort array of syntax terminals by names\. \*/", body)]
    m1 = [m for m in re.finditer(r"nsterm = nsrule = 0;\s*return 0;", body)]
    if len(m0) != 1 or len(m1) != 1 or m0[0].start() > m1[0].start():
        raise StageError("R4: anchors of the code-assignment region of set_sgrammar did not fire (%d, %d)" % (len(m0), len(m1)))
    region = body[m0[0].start():m1[0].end()]
    decl = re.search(r"int i, j, num;\s*struct sterm \*term, \*prev, \*arr;\s*int code = (\d+)", body)
    if not decl:
        raise StageError("R4: local declarations of set_sgrammar changed")
    between = body[decl.end():m0[0].start()]
    info = {"code_init": int(decl.group(1)), "code_assigned_before_region": bool(re.search(r"[^_a-zA-Z]code\s*(=[^=]|\+\+|--)", _shadow(between)))}
    line = text.count("\n", 0, b0 + m0[0].start()) + 1
    out = ("/* generated by stage.py rule R4 on every run: tail of set_sgrammar, text copied verbatim */\n"
           "static int verif_sgrammar_tail (int code)\n{\n  int i, j, num;\n  struct sterm *term, *prev, *arr;\n#line %d \"sgramm.y\"\n  %s\n}\n" % (line, region))
    open(os.path.join(dst, "r4_codes.inc"), "w").write(out)
    return info


def extract_rg_prefix(dst):
    """Rule R5: copy the first region of yaep_read_grammar (from the opening brace's first statement `assert (g != NULL);` up to, not
    including, the comment `/* Adding error symbol. */`: current-grammar switch, setjmp test, emptying, terminal intake loop) into a
    generated function.  Must-fire on both anchors.  Dropped: nothing inside the region; the rest of the function is not part of it."""
    text = open(os.path.join(dst, "yaep.c")).read()
    sh = _shadow(text)
    b0, b1 = find_function(text, sh, "yaep_read_grammar")
    body = text[b0:b1 + 1]
    m0 = [m for m in re.finditer(r"assert \(g != NULL\);", body)]
    m1 = [m for m in re.finditer(r"/\* Adding error symbol\. \*/", body)]
    if len(m0) != 1 or len(m1) != 1 or m0[0].start() > m1[0].start():
        raise StageError("R5: anchors of the terminal-intake region of yaep_read_grammar did not fire (%d, %d)" % (len(m0), len(m1)))
    region = body[m0[0].start():m1[0].start()]
    if _shadow(region).count("{") != _shadow(region).count("}"):
        raise StageError("R5: region is not brace-balanced")
    line = text.count("\n", 0, b0 + m0[0].start()) + 1
    out = ("/* generated by stage.py rule R5 on every run: first region of yaep_read_grammar, text copied verbatim */\n"
           "static int verif_rg_prefix (struct grammar *g, int strict_p, const char *(*read_terminal) (int *code))\n{\n"
           "  const char *name;\n  struct symb *symb;\n  int code;\n#line %d \"yaep.c\"\n  %s\n  return -1; /* control continues in the rest of yaep_read_grammar */\n}\n" % (line, region))
    open(os.path.join(dst, "r5_rg_prefix.inc"), "w").write(out)
    return 1


def extract_rg_tail(dst):
    """Rule R6: copy the last region of yaep_read_grammar (from `if (grammar->axiom == NULL)` to the closing `return 0;`: NO_RULES test,
    implicit rule `$S : error $eof`, check_grammar, symb_finish_adding_terms, debug output, undefined_p = FALSE) into a generated
    function.  Must-fire on both anchors; nothing inside the region is dropped."""
    text = open(os.path.join(dst, "yaep.c")).read()
    sh = _shadow(text)
    b0, b1 = find_function(text, sh, "yaep_read_grammar")
    body = text[b0:b1 + 1]
    m0 = [m for m in re.finditer(r"if \(grammar->axiom == NULL\)\s*VERIF_ERROR \(YAEP_NO_RULES", body)]
    m1 = [m for m in re.finditer(r"grammar->undefined_p = FALSE;\s*return 0;\s*}\s*$", body)]
    if len(m0) != 1 or len(m1) != 1 or m0[0].start() > m1[0].start():
        raise StageError("R6: anchors of the last region of yaep_read_grammar did not fire (%d, %d)" % (len(m0), len(m1)))
    region = body[m0[0].start():m1[0].end() - 1].rstrip()
    region = region[:region.rfind("}")] if False else region
    line = text.count("\n", 0, b0 + m0[0].start()) + 1
    out = ("/* generated by stage.py rule R6 on every run: last region of yaep_read_grammar, text copied verbatim */\n"
           "static int verif_rg_tail (int strict_p, struct symb *start)\n{\n  struct symb *symb;\n  struct rule *rule;\n  int i;\n#line %d \"yaep.c\"\n  %s\n}\n" % (line, region))
    open(os.path.join(dst, "r6_rg_tail.inc"), "w").write(out)
    return 1


def extract_rg_rule(dst):
    """Rule R7: copy the BODY of the rule-intake loop of yaep_read_grammar (the compound statement of
    `while ((lhs = (*read_rule) (&rhs, &anode, &anode_cost, &transl)) != NULL)`: one iteration = everything done for one delivered rule)
    into a generated function whose parameters are the values the callback delivered; `start`, which the body assigns and the code
    after the loop reads, goes in and out through a pointer.  Must-fire on the loop header; nothing inside the body is dropped.  Not part
    of this rule: the loop header itself and the four statements between the terminal loop and this loop (error symbol)."""
    text = open(os.path.join(dst, "yaep.c")).read()
    sh = _shadow(text)
    b0, b1 = find_function(text, sh, "yaep_read_grammar")
    body = text[b0:b1 + 1]
    bsh = sh[b0:b1 + 1]
    m0 = [m for m in re.finditer(r"while \(\(lhs = \(\*read_rule\) \(&rhs, &anode, &anode_cost, &transl\)\) != NULL\)", bsh)]
    if len(m0) != 1:
        raise StageError("R7: header of the rule-intake loop of yaep_read_grammar did not fire (%d)" % len(m0))
    o = bsh.find("{", m0[0].end())
    if o < 0:
        raise StageError("R7: no body after the rule-intake loop header")
    depth, c = 0, o
    while c < len(bsh):
        if bsh[c] == "{":
            depth += 1
        elif bsh[c] == "}":
            depth -= 1
            if depth == 0:
                break
        c += 1
    if depth != 0:
        raise StageError("R7: body of the rule-intake loop is not brace-balanced")
    region = body[o:c + 1]
    line = text.count("\n", 0, b0 + o) + 1
    out = ("/* generated by stage.py rule R7 on every run: body of the rule-intake loop of yaep_read_grammar, text copied verbatim */\n"
           "static void verif_rg_rule (const char *lhs, const char **rhs, const char *anode, int anode_cost, int *transl, struct symb **start_io)\n{\n"
           "  struct symb *symb, *start = *start_io;\n  struct rule *rule;\n  int i, el;\n#line %d \"yaep.c\"\n  %s\n  *start_io = start;\n}\n" % (line, region))
    open(os.path.join(dst, "r7_rg_rule.inc"), "w").write(out)
    return 1


def extract_rg_rules_loop(dst):
    """Rule R8: copy the middle region of yaep_read_grammar (from the comment `/* Adding error symbol. */` up to, not including, the
    NO_RULES test) into a generated function, with the BODY of the rule-intake loop (the compound statement rule R7 cuts out) replaced by
    one call of the function R7 generates: `verif_rg_rule (lhs, rhs, anode, anode_cost, transl, &start);`.  Everything else - the four
    statements for the error symbol, the loop header with its callback call - is verbatim.  Must-fire on both anchors and on the header."""
    text = open(os.path.join(dst, "yaep.c")).read()
    sh = _shadow(text)
    b0, b1 = find_function(text, sh, "yaep_read_grammar")
    body = text[b0:b1 + 1]
    bsh = sh[b0:b1 + 1]
    m0 = [m for m in re.finditer(r"/\* Adding error symbol\. \*/", body)]
    m1 = [m for m in re.finditer(r"if \(grammar->axiom == NULL\)\s*VERIF_ERROR \(YAEP_NO_RULES", body)]
    mh = [m for m in re.finditer(r"while \(\(lhs = \(\*read_rule\) \(&rhs, &anode, &anode_cost, &transl\)\) != NULL\)", bsh)]
    if len(m0) != 1 or len(m1) != 1 or len(mh) != 1 or not (m0[0].start() < mh[0].start() < m1[0].start()):
        raise StageError("R8: anchors of the middle region of yaep_read_grammar did not fire (%d, %d, %d)" % (len(m0), len(m1), len(mh)))
    o = bsh.find("{", mh[0].end())
    depth, c = 0, o
    while c < len(bsh):
        if bsh[c] == "{":
            depth += 1
        elif bsh[c] == "}":
            depth -= 1
            if depth == 0:
                break
        c += 1
    if o < 0 or depth != 0 or c >= m1[0].start():
        raise StageError("R8: body of the rule-intake loop not found inside the region")
    if body[c + 1:m1[0].start()].strip():
        raise StageError("R8: unexpected text between the rule-intake loop and the NO_RULES test")
    region = body[m0[0].start():o] + "verif_rg_rule (lhs, rhs, anode, anode_cost, transl, &start);   /* R8: the loop body, see r7_rg_rule.inc */\n"
    line = text.count("\n", 0, b0 + m0[0].start()) + 1
    out = ("/* generated by stage.py rule R8 on every run: middle region of yaep_read_grammar, the loop body replaced by a call of the R7 function */\n"
           "static struct symb *verif_rg_rules (const char *(*read_rule) (const char ***rhs, const char **abs_node, int *anode_cost, int **transl))\n{\n"
           "  const char *lhs, **rhs, *anode;\n  struct symb *start;\n  int anode_cost;\n  int *transl;\n#line %d \"yaep.c\"\n  %s  return start;\n}\n" % (line, region))
    open(os.path.join(dst, "r8_rg_rules.inc"), "w").write(out)
    return 1


def extract_cxx_forwarders(dst):
    """Rule R9: the member functions of class yaep (yaep.cpp, between `#include "yaep.c"` and the YAEP_TEST block) rewritten to C by fixed,
    must-fire rules: `yaep::yaep (void)` -> `void yaepxx_ctor (struct yaepxx *this_)`, `yaep::~yaep (void)` -> `void yaepxx_dtor (struct yaepxx *this_)`,
    `yaep::m (void)` -> `yaepxx_m (struct yaepxx *this_)`, `yaep::m (` -> `yaepxx_m (struct yaepxx *this_, ` (a member declared `static` in the
    class: no `this_` parameter), `this->` -> `this_->`.  struct yaepxx gets the data members of the class (everything before `public:`).
    What the rewriting drops: C++ member-call syntax and the allocation of the object itself by new/delete; bodies are copied verbatim."""
    text = open(os.path.join(dst, "yaep.cpp")).read()
    hdr = open(os.path.join(dst, "yaep.h")).read()
    m = re.search(r"\nclass yaep\s*\{(.*?)\n\};", hdr, re.S)
    if not m:
        raise StageError("R9: class yaep not found in yaep.h")
    cls = m.group(1)
    if cls.count("public:") != 1:
        raise StageError("R9: class yaep: expected exactly one public: label")
    data = _shadow(cls.split("public:")[0])
    members = [d.strip() for d in data.split(";") if d.strip()]
    if members != ["struct grammar *grammar"]:
        raise StageError("R9: data members of class yaep changed: %r" % members)
    statics = set(re.findall(r"\bstatic\s+[\w\s\*]*?\b(\w+)\s*\(", _shadow(cls.split("public:")[1])))
    i0 = text.find('#include "yaep.c"')
    i1 = text.find("#ifdef YAEP_TEST", i0)
    if i0 < 0 or i1 < 0:
        raise StageError("R9: anchors of the member-function region of yaep.cpp did not fire")
    region = text[i0 + len('#include "yaep.c"'):i1]
    line = text.count("\n", 0, i0) + 1
    names = []

    def sub(mm):
        name, void = mm.group(1), mm.group(2)
        if name == "yaep":
            names.append("ctor")
            return "void yaepxx_ctor (struct yaepxx *this_" + (")" if void else ", ")
        if name == "~yaep":
            names.append("dtor")
            return "void yaepxx_dtor (struct yaepxx *this_" + (")" if void else ", ")
        names.append(name)
        if name in statics:
            return "yaepxx_%s (" % name + ("void)" if void else "")
        return "yaepxx_%s (struct yaepxx *this_" % name + (")" if void else ", ")
    out = re.sub(r"\byaep::(~?\w+)\s*\(\s*(void\s*\))?", sub, region)
    out = re.sub(r"\bthis->", "this_->", out)
    sh = _shadow(out)
    if re.search(r"\byaep::|\bthis\b|\bnew\b|\bdelete\b|\bclass\b", sh):
        raise StageError("R9: C++ constructs left after rewriting the members of class yaep")
    want = ["ctor", "dtor", "error_code", "error_message", "read_grammar", "parse_grammar", "set_lookahead_level", "set_debug_level", "set_one_parse_flag",
            "set_cost_flag", "set_error_recovery_flag", "set_recovery_match", "parse", "free_tree"]
    if sorted(names) != sorted(want):
        raise StageError("R9: member functions of class yaep changed: %r" % names)
    open(os.path.join(dst, "r9_cxx_fwd.inc"), "w").write(
        "/* generated by stage.py rule R9 on every run: member functions of class yaep (yaep.cpp) rewritten to C, bodies verbatim */\n"
        "struct yaepxx { struct grammar *grammar; };\n#line %d \"yaep.cpp\"\n%s\n" % (line, out))
    return {"members": names, "static_members": sorted(statics)}


def stage(dst, loops_files=None):
    """Populate dst with the staged sources. Returns info dict."""
    os.makedirs(dst, exist_ok=True)
    files = []
    for pat in ("*.c", "*.h", "*.y", "*.cpp"):
        files += glob.glob(os.path.join(REPO_SRC, pat))
    if not files:
        raise StageError("no sources under %s" % REPO_SRC)
    orig = {}
    for f in files:
        b = os.path.basename(f)
        if b == "sgramm.c":
            continue
        shutil.copy(f, os.path.join(dst, b))
        orig[b] = open(f, "rb").read()
    # pristine copies (byte-identical to the working tree) for translation units that are only LINKED to a spec or a native stand-in
    os.makedirs(os.path.join(dst, "plain"), exist_ok=True)
    for b, ob in orig.items():
        open(os.path.join(dst, "plain", b), "wb").write(ob)
    info = {"r2_sites": {}, "r1_loops": 0, "files": sorted(orig)}
    # R2
    total = 0
    for b in ("yaep.c", "sgramm.y"):
        p = os.path.join(dst, b)
        s = open(p).read()
        s2, n = R2_RX.subn(r"VERIF_ERROR\1", s)
        left = len(re.findall(r"\byaep_error\s*\(", s2))
        want_left = 2 if b == "yaep.c" else 0
        if n < 1 or left != want_left:
            raise StageError("R2 did not fire as expected in %s: renamed %d, left %d" % (b, n, left))
        open(p, "w").write(s2)
        info["r2_sites"][b] = n
        total += n
    info["r2_total"] = total
    # R1
    entries = []
    for lf in (loops_files if loops_files is not None else sorted(glob.glob(os.path.join(VERIF, "contracts", "*.loops")))):
        entries += json.load(open(lf))
    byfile = {}
    for e in entries:
        byfile.setdefault(e["file"], []).append(e)
    info["r1_misses"] = []
    for b, es in byfile.items():
        n_ins, misses = inject_loops(os.path.join(dst, b), es)
        info["r1_loops"] += n_ins
        info["r1_misses"] += misses
    info["r1_entries"] = [(e["file"], e["function"], e["header"]) for e in entries]
    # faithfulness: undo R1 and R2, compare with the working tree byte for byte
    for b, ob in orig.items():
        s = open(os.path.join(dst, b), "rb").read().decode("latin-1")
        s = re.sub(r" __CPROVER_[^\n]*? /\*VERIF-R1\*/", "", s)
        s = re.sub(r"\bVERIF_ERROR(\s*\()", r"yaep_error\1", s)
        if s.encode("latin-1") != ob:
            raise StageError("faithfulness check failed for %s" % b)
    info["r3_sites"] = extract_unwind(dst)
    info["r4"] = extract_codes_tail(dst)
    info["r5"] = extract_rg_prefix(dst)
    info["r6"] = extract_rg_tail(dst)
    info["r7"] = extract_rg_rule(dst)
    info["r8"] = extract_rg_rules_loop(dst)
    info["r9"] = extract_cxx_forwarders(dst)
    # bison exactly as src/CMakeLists.txt does (bison_target -> bison -o sgramm.c sgramm.y)
    r = subprocess.run(["bison", "-o", "sgramm.c", "sgramm.y"], cwd=dst, capture_output=True, text=True)
    if r.returncode != 0 or not os.path.exists(os.path.join(dst, "sgramm.c")):
        raise StageError("bison failed: %s" % r.stderr[-400:])
    return info


if __name__ == "__main__":
    import sys
    print(json.dumps(stage(sys.argv[1]), indent=1))
