#!/usr/bin/env python3
"""Supporting static facts (mode S): must-fire syntactic checks over the real source (pristine copy in <stage>/plain).
They are assumption checks for the paper steps of DESIGN section 4, never counted as proved obligations."""
import os
import re
import stage as st


def _fn(path, name):
    text = open(path).read()
    sh = st._shadow(text)
    b0, b1 = st.find_function(text, sh, name)
    return text[b0:b1 + 1], sh[b0:b1 + 1]


def _norm(s):
    return re.sub(r"\s+", " ", s).strip()


def flags(stage_dir):
    """S.flags: in yaep_parse every *_init () call is immediately followed by its flag assignment, both flags are cleared
    before the setjmp test, and are assigned nowhere else (justifies tok_init_p == gh_tok_live at the jump, DESIGN 4.1)."""
    body, sh = _fn(os.path.join(stage_dir, "plain", "yaep.c"), "yaep_parse")
    n = _norm(sh)
    out = []
    out.append(("tok_init-then-flag", "tok_init (); tok_init_p = TRUE;" in n, "tok_init (); is immediately followed by tok_init_p = TRUE;"))
    out.append(("parse_init-then-flag", re.search(r"yaep_parse_init \(toks_len\); parse_init_p = TRUE;", n) is not None, "yaep_parse_init (toks_len); is immediately followed by parse_init_p = TRUE;"))
    i_clear = n.find("tok_init_p = parse_init_p = FALSE;")
    i_setjmp = n.find("setjmp (error_longjump_buff)")
    out.append(("flags-cleared-before-setjmp", 0 <= i_clear < i_setjmp, "both flags are cleared before the setjmp test"))
    out.append(("flags-assigned-only-there", len(re.findall(r"\btok_init_p\s*=[^=]", n)) == 2 and len(re.findall(r"\bparse_init_p\s*=[^=]", n)) == 2, "no other assignment to the flags"))
    out.append(("flags-volatile", re.search(r"volatile int tok_init_p, parse_init_p;", n) is not None,
                "the two flags are volatile (their values in the handler are the last written ones: C11 7.13.2.1; assumption A3 holds by the language)"))
    # the one-parse flag handed to the error branch (unwind_parse_c) is the value read from the object before the setjmp test
    i_save = n.find("saved_one_parse_p = grammar->one_parse_p;")
    out.append(("oneparse-saved-before-setjmp", 0 <= i_save < i_setjmp and len(re.findall(r"\bsaved_one_parse_p\s*=[^=]", n)) == 1,
                "the one-parse flag is read from the object once, before the setjmp test (make_parse changes it for the time of its work)"))
    out.append(("oneparse-saved-volatile", re.search(r"volatile int saved_one_parse_p;", n) is not None, "the saved value is volatile (defined in the handler)"))
    out.append(("fin-after-last-exit", n.rfind("yaep_parse_fin (); tok_fin (); return 0;") > n.rfind("make_parse"), "success path finalises parse storage then token storage then returns 0"))
    return out


def oneparse(stage_dir):
    """S.oneparse (C14/C15): make_parse forces all-parses construction under the cost flag by clearing grammar->one_parse_p and must
    restore the caller's setting on its only exit path: the restore statement is at the top level of the function body (not inside
    a conditional), after the last other assignment to the field, and there is no return before it."""
    body, sh = _fn(os.path.join(stage_dir, "plain", "yaep.c"), "make_parse")
    out = []
    save = [m.start() for m in re.finditer(r"saved_one_parse_p\s*=\s*grammar->one_parse_p\s*;", sh)]
    rest = [m.start() for m in re.finditer(r"grammar->one_parse_p\s*=\s*saved_one_parse_p\s*;", sh)]
    out.append(("save-once-restore-once", len(save) == 1 and len(rest) == 1, "exactly one save and one restore of grammar->one_parse_p"))
    if len(save) == 1 and len(rest) == 1:
        depth = 0
        for ch in sh[:rest[0]]:
            depth += (ch == "{") - (ch == "}")
        out.append(("restore-unconditional", depth == 1, "the restore is at the top level of the function body (brace depth %d)" % depth))
        others = [m.start() for m in re.finditer(r"grammar->one_parse_p\s*=[^=]", sh) if m.start() not in rest]
        out.append(("restore-after-last-write", all(o < rest[0] for o in others), "no assignment to the field after the restore"))
        out.append(("no-return-before-restore", re.search(r"\breturn\b", sh[save[0]:rest[0]]) is None, "no return between the save and the restore"))
        prev = sh[:rest[0]].rstrip()
        out.append(("restore-not-guarded", not re.search(r"(\bif\s*\([^;{}]*\)|\belse)\s*$", prev), "the restore is not the body of an if/else"))
    return out


def fmt(stage_dir):
    """S.fmt (C15 'non-empty matching text'): every error call site passes a string literal format that starts with literal text."""
    out = []
    for f in ("yaep.c", "sgramm.y"):
        text = open(os.path.join(stage_dir, "plain", f)).read()
        sites = list(re.finditer(r"\byaep_error\s*\(\s*(YAEP_[A-Z_]+)\s*,\s*(\"(?:[^\"\\]|\\.)*\")", text))
        n_all = len(re.findall(r"\byaep_error\s*\((?!\s*int code)", text))
        ok = len(sites) == n_all and all(len(m.group(2)) > 2 and m.group(2)[1] != "%" for m in sites)
        out.append(("formats-" + f, ok and n_all > 0, "%d error call sites in %s, all with a literal format starting with text" % (n_all, f)))
    return out


def codes256(stage_dir):
    """S.codes256 (C11): the bounded set D.codes runs the tail of set_sgrammar with `code` = 256; this fact ties that value to the real
    function: the variable is initialised to 256 at its declaration and nothing assigns it before the region."""
    text = open(os.path.join(stage_dir, "plain", "sgramm.y")).read()
    sh = st._shadow(text)
    b0, b1 = st.find_function(text, sh, "set_sgrammar")
    body = text[b0:b1 + 1]
    decl = re.search(r"\bint code = (\d+)", body)
    m0 = re.search(r"/\* sort array of syntax terminals by names\. \*/", body)
    out = [("declared-256", bool(decl) and decl.group(1) == "256", "`code' is declared with initialiser 256")]
    if decl and m0:
        between = st._shadow(body[decl.end():m0.start()])
        out.append(("not-assigned-before-region", re.search(r"[^_a-zA-Z]code\s*(=[^=]|\+\+|--)", between) is None, "no assignment to `code' between its declaration and the code-assignment region"))
    else:
        out.append(("anchors", False, "declaration or region anchor not found"))
    return out
