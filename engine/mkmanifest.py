#!/usr/bin/env python3
"""Regenerate /verif/MANIFEST.json from the table below (kept as code so the file always validates)."""
import json, os, subprocess
V = os.path.dirname(os.path.dirname(os.path.abspath(__file__)))
TECH = "CBMC 6.11 code contracts on the real sources (DFCC: --enforce-contract / --replace-call-with-contract / loop contracts), bounded and native stand-ins labelled"
CLAIMS = {
 "C19": ("proof", "5 C19", "Per-operation function contracts on the real hashtab.c, objstack.c (+ OS_* macros through one-line wrappers) and the VLO_* macros: representation invariant kept, "
         "abstract effect stated over an arbitrary slot/byte (ghost index), frames proved. Unbounded in the number of operations by induction over calls; object sizes capped (CAP). "
         "VLO growth (realloc pointer-difference idiom), prime table sizes, OS_EMPTY over a segment chain (<= 3 segments) and the history-level statements are native/bounded stand-ins, listed apart and not counted as proved.",
         "CBMC + SAT; allocation model; caps on object sizes; probe-loop termination not proved; C++ twins not covered (see DESIGN C16/C19)."),
 "C15": ("proof", "5 C15", "Setters/accessors: loop-free full-domain contracts. yaep_parse: phase A (normal path + exit assertions at every error exit) and phase B (error branch text) with callees replaced by contracts. "
         "Token layer: symb_find_by_code, tok_add, read_toks under contract, symb_finish_adding_terms bounded. yaep_error in faithful mode. yaep_create_grammar defaults.",
         "Contracts of parser internals (build_pl, make_parse, init/fin) assumed in API.parse; longjmp semantics A3; models of vsnprintf/longjmp."),
 "C14": ("proof", "5 C14", "Induction over API calls: every API function is enforced from ARBITRARY file-scope state plus the object invariant and 'no parser list between calls', and re-establishes them on both exits; "
         "storage layer (fin/empty functions) releases/empties exactly once.",
         "Same as C15; 'returns what a fresh object would return' is proved only as equality of the state the call depends on, not as parser correctness."),
 "C17": ("proof", "5 C17", "Exit protocol: allocate.c wrappers report a failed request once through the installed handler; yaep's handler never returns; every allocation site inside functions under contract carries the exit assertion; "
         "the unwinding branches of yaep_create_grammar and yaep_parse are verified from any state satisfying it (incl.: the settings of the object are left as the caller made them); "
         "inside _OS_expand_memory the exit assertion is checked at the failing request itself (the stack still owns its segment and top object).",
         "Allocation sites inside build_pl/make_parse/error_recovery are not under contract (their unwinding branch is)."),
 "C10": ("proof", "5 C10 / 9", "yaep_read_grammar is cut mechanically (rules R5-R8, on every run) into four regions that together are the whole function, each under its own contract: terminal intake (loop closed by an invariant: "
         "the object is switched to, emptied and marked undefined before the first callback), the rule loop around its body, the body for one delivered rule (every rule-level error code has a witness in what the "
         "callback delivered; on normal end no rule-level defect is present and the rule record is exactly what was delivered; bounded to 8 names / translation numbers per rule, counterexamples are replayed on the "
         "real library), the tail (NO_RULES, implicit error rule, check, undefined_p cleared last; bounded list walk); check_grammar's verdicts are proved given the flags (both loops closed by contracts). "
         "The flag computations themselves (least fixpoints) are decided in bounded form by native exhaustive stand-ins on the real code, labelled bounded and not counted as proved.",
         "Hand-over of state between the regions is checked by reading; symbol-table lookups answer 'found' iff added before (A7: composed on paper from C19 and the symb_add_* contracts); flag fixpoints bounded."),
 "C11": ("proof", "5 C11 / 9", "The hand-written lexer under contract with all five loops closed (cursor never passes the terminating NUL, token kinds by first character, number and line arithmetic), "
         "yaep_parse_grammar's protocol (object switched to first, failure code returned, intermediate form released once, otherwise exactly yaep_read_grammar's result), the replay callbacks. "
         "Code assignment (tail of set_sgrammar) is a bounded set; the bison actions are covered in bounded form by a native differential stand-in (description text against the callback-defined twin).",
         "The bison automaton is not under contract; token text accumulation is a stated drop in the lexer set."),
 "C13": ("proof", "5 C13 / 9", "Tree-node constructors under contract: place_translation and copy_anode request blocks of exactly the node size (+ child slots) from parse_alloc and write only them; "
         "symb_add_term, symb_add_nonterm and (thorough tier) rule_new_start copy the name into the grammar's storage (different object, equal bytes). yaep_free_tree and the whole-parse ownership statement are native exhaustive stand-ins (bounded).",
         "Pairing of parse_alloc/parse_free over a whole yaep_parse is a fact about make_parse: bounded native stand-in only."),
 "C04": ("proof", "5 C04 / 9", "prune_to_minimal base cases full-domain (leaf costs 0; an already processed shared node reports its recorded total), copy_anode copies the cost, "
         "traverse_pruned_translation restores a shared node once (bounded), static fact that make_parse restores the one-parse flag unconditionally.",
         "The recursive cases of prune_to_minimal (sum over children, minimum over alternatives) exceed CBMC's reach in this sandbox (out of memory at 16 GB for one level with two children); composition over the DAG is a paper induction."),
 "C16": ("proof", "5 C16 / 9", "Interface layer: the 14 member functions of class yaep are extracted from yaep.cpp to C on every run (staging rule R9, must-fire, bodies verbatim) and each is proved, full domain, to call exactly its C counterpart "
         "exactly once on the wrapped object with its own arguments in order and to return its result, assigning nothing else (the C functions are replaced by recording contracts). "
         "Everything below the interface is yaep.c itself compiled as C++ over the container classes: agreement there is a bounded native differential stand-in (both real libraries linked into one program and driven with the "
         "same grammars, inputs, configurations and histories; codes, messages, callbacks, flags, trees and releases compared) plus the container twins; labelled bounded, not counted as proved.",
         "The R9 rewriting is trusted; C++ containers are not under contract (CBMC's C++ front end); recovery together with all parses is left out of the differential runs (known finding F38)."),
 "C12": ("proof", "5 C12", "All built-in CBMC safety classes (bounds, pointer, signed overflow, division, conversions) of every function placed under contract for any property, plus the targeted anchors: "
         "message buffer (faithful yaep_error), code translation vector, parser-list size, description lexer.",
         "Only the functions listed in the evidence are covered; the Earley core, error recovery, tree builder and bison automaton are named as unverified (bounded native stand-ins under sanitizers reach into them: API histories, allocation failures, container growth points, recovery arguments)."),
}
NA = {
 "C01": "whole-algorithm relation 'succeeds iff the input is derivable': derivability is an inductive definition over strings that CBMC's contract language cannot state, and build_new_set/expand_new_start_set have no modular frame",
 "C02": "'the tree is the translation of a derivation of the input': every clause is established inside the 500-line loop of make_parse, for which no loop invariant short of the whole reconstruction argument exists",
 "C03": "'the DAG denotes exactly all translations': a set of derivations is not expressible in contracts; same make_parse loop",
 "C05": "the flag means 'two derivations exist' and is set inside make_parse's candidate loop; only the reset clause is provable and is carried by API.parse (C15)",
 "C07": "termination of recovery plus an existential over repairs of the input; no per-call contract",
 "C08": "minimality over all simple recoveries: universal over alternative runs of the parser; no per-call contract",
 "C06": "only the argument-consistency clauses of build_pl would be provable, and only against an assumed contract of error_recovery (its loops have no invariant short of the recovery argument); 'first token no sentence continues with' is a C01-class statement. The bounds of the callback arguments are checked in bounded native form under C12 (E.recover.native, which found F36), not as a contract, so the property is not claimed",
 "C09": "equality of results across lookahead levels is a C01-class statement; the provable part (clamping) is carried by C15's API.set.set_lookahead; debug-level frame facts not built",
 "C18": "growth rate of total work over input length for a grammar class; a contract bounds one call",
}
def main():
    props = [json.loads(l)["id"] for l in open(os.path.join(V, "properties.jsonl"))]
    commits = subprocess.run(["git", "-C", "/repo", "log", "--format=%h %s", "cd58c56..HEAD"], capture_output=True, text=True).stdout.strip().split("\n")
    checks = []
    for pid in props:
        if pid in CLAIMS:
            lvl, ref, text, note = CLAIMS[pid]
            checks.append({"property_id": pid, "quick_cmd": "./check %s --tier quick" % pid, "thorough_cmd": "./check %s --tier thorough" % pid,
                           "evidence_file": "/verif/evidence/%s.json" % pid, "replay_cmd_template": "./check %s --replay {path}" % pid, "engine": "cbmc-contracts",
                           "level_claimed": {"category": lvl, "text": text, "design_ref": "DESIGN.md section " + ref}, "level_note": note, "technique": TECH})
    na = [{"property_id": p, "reason": NA.get(p, "obligation sets not built (yet); see DESIGN.md section 5")} for p in props if p not in CLAIMS]
    m = {"version": 1, "setup_cmd": "python3 -c \"import json;json.load(open('/verif/MANIFEST.json'))\" && cbmc --version && goto-instrument --version && bison --version | head -1",
         "hooks": {"guard": "YAEP_VERIF", "enable": "no hooks in /repo: function contracts are separate symbols in /verif/contracts bound by name at instrumentation time; loop contracts are injected into a scratch copy on every run",
                   "baseline_off_cmd": "/verif/native/suite.sh", "source_commits": [c for c in commits if c], "add_only": True},
         "engines": [{"name": "cbmc-contracts", "path": "/verif/engine/run.py", "serves_properties": sorted(CLAIMS), "kind_free_text": "contract-based deductive verification with CBMC DFCC on the staged real sources"}],
         "checks": checks, "not_applicable": na,
         "notes": "exit 0 = all obligations discharged (known findings printed as KNOWN-FINDING), 1 = VIOLATION, 2 = UNDECIDED (tool failure / timeout / extraction break, never a violation)"}
    json.dump(m, open(os.path.join(V, "MANIFEST.json"), "w"), indent=1)
if __name__ == "__main__":
    main()
