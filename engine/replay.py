#!/usr/bin/env python3
"""Native replay against the real code.  For a failed obligation of a set that names native demonstrations (`demos`), the real
library is built from /repo's CURRENT working tree with ASan/UBSan and each demonstration (native/repro/<name>.c: an API-level
program that drives the public interface into the situation the contract clause is about) is run.  A demonstration that fails is a
concrete failing input for the real code; its output goes into the replay file.  These inputs are fixed regression inputs chosen per
contract clause, not a transcription of the solver's counterexample; when none of them fails the line stays no-failing-input-found.
Sets with a `cex` entry additionally replay the solver's counterexample itself: the named trace variables are read from the trace and
passed to a native program (run_cex)."""
import os
import subprocess
import tempfile
import shutil

VERIF = os.path.dirname(os.path.dirname(os.path.abspath(__file__)))
_cache = {}


def _lib():
    if "dir" in _cache:
        return _cache["dir"]
    d = tempfile.mkdtemp(prefix="verif-native-")
    src = os.environ.get("VERIF_REPO_SRC", "/repo/src")
    r = subprocess.run([os.path.join(VERIF, "native", "mklib.sh"), d, src], capture_output=True, text=True, timeout=600)
    _cache["dir"] = d if r.returncode == 0 else None
    _cache["err"] = r.stderr[-500:]
    return _cache["dir"]


def cleanup():
    d = _cache.get("dir")
    if d:
        shutil.rmtree(d, ignore_errors=True)


def run_cex(name, args):
    """Counterexample replay: native/repro/<name>.c takes the values of the verifier's counterexample on its command line and checks the
    real library's behaviour on that input against the property statement.  returns (reproduced, text)"""
    d = _lib()
    if not d:
        return False, "native build of the real library failed: %s" % _cache.get("err", "")
    exe = os.path.join(d, name + ".exe")
    c = subprocess.run(["clang", "-g", "-fsanitize=address,undefined", "-fno-sanitize-recover=undefined", "-I" + d, "-I" + os.path.join(VERIF, "native", "repro"),
                        os.path.join(VERIF, "native", "repro", name + ".c"), os.path.join(d, "libyaep_san.a"), "-o", exe], capture_output=True, text=True, timeout=300)
    if c.returncode != 0:
        return False, "%s: does not compile: %s" % (name, c.stderr[-300:])
    try:
        r = subprocess.run([exe] + [str(a) for a in args], capture_output=True, text=True, timeout=120)
        rc, txt = r.returncode, (r.stdout + r.stderr)
    except subprocess.TimeoutExpired:
        rc, txt = -9, "timeout"
    keep = "\n".join(l for l in txt.split("\n") if l and not l.startswith("    #"))[:1500]
    return rc not in (0, 2), "$ native/repro/%s %s (the verifier's counterexample on the real library from %s, ASan+UBSan) -> exit %d\n%s" % (
        name, " ".join(str(a) for a in args), os.environ.get("VERIF_REPO_SRC", "/repo/src"), rc, keep)


def run(demos):
    """returns (reproduced, text)"""
    d = _lib()
    if not d:
        return False, "native build of the real library failed: %s" % _cache.get("err", "")
    out, repro = [], False
    for name in demos:
        exe = os.path.join(d, name + ".exe")
        c = subprocess.run(["clang", "-g", "-fsanitize=address,undefined", "-fno-sanitize-recover=undefined", "-I" + d,
                            os.path.join(VERIF, "native", "repro", name + ".c"), os.path.join(d, "libyaep_san.a"), "-o", exe], capture_output=True, text=True, timeout=300)
        if c.returncode != 0:
            out.append("%s: does not compile: %s" % (name, c.stderr[-300:]))
            continue
        try:
            r = subprocess.run([exe], capture_output=True, text=True, timeout=120)
            rc, txt = r.returncode, (r.stdout + r.stderr)
        except subprocess.TimeoutExpired:
            rc, txt = -9, "timeout"
        keep = "\n".join(l for l in txt.split("\n") if l and not l.startswith("    #"))[:1500]
        out.append("$ native/repro/%s (real library from %s, ASan+UBSan) -> exit %d\n%s" % (name, os.environ.get("VERIF_REPO_SRC", "/repo/src"), rc, keep))
        if rc != 0:
            repro = True
    return repro, "\n".join(out)
