/* Trusted model of glibc's <ctype.h> back end (A2): isalpha/isdigit/... expand to (*__ctype_b_loc ())[(int) c] & mask.
   CBMC/DFCC ignores bodies of functions whose names start with `__', so the real name is rebound with
   -D__ctype_b_loc=verif_ctype_b_loc.  The table is glibc's C-locale table (models/ctype_table.h). */
#ifndef VERIF_CTYPE_MODEL_H
#define VERIF_CTYPE_MODEL_H
#include "ctype_table.h"
static const unsigned short *const verif_ctype_ptr = verif_ctype_tab + 128;
const unsigned short **verif_ctype_b_loc (void) { return (const unsigned short **) &verif_ctype_ptr; }
#endif
