/* Model of allocate.c as used inside yaep (trusted, small): the allocator object is the one
   yaep_create_grammar builds with yaep_alloc_new (NULL, NULL, NULL, NULL), i.e. libc
   malloc/calloc/realloc/free, and its error callback never returns (A.cb, A.wrap in
   alloc.spec.c prove both facts on the real allocate.c).  The bodies below are the real
   bodies of allocate.c with the function pointers resolved and the non-returning error
   branch cut; memory comes back with UNDETERMINED contents (CBMC's malloc). */
#ifndef VERIF_ALLOC_MODEL_H
#define VERIF_ALLOC_MODEL_H
#include <stdlib.h>
#include "allocate.h"
#ifndef VERIF_ALLOC_FAIL_HOOK
#define VERIF_ALLOC_FAIL_HOOK() __CPROVER_assume (0)
#endif
#ifdef VERIF_TRACK_ALLOC_SIZE
size_t verif_last_alloc_size;   /* ghost: size of the most recent request (CBMC's malloc model mis-sizes `sizeof(T) * n * 2`) */
#define VERIF_NOTE_SIZE(n) (verif_last_alloc_size = (n))
#else
#define VERIF_NOTE_SIZE(n) ((void) 0)
#endif
void *yaep_malloc (struct YaepAllocator *allocator, size_t size)
{
  void *result;
  if (allocator == NULL) return NULL;
  VERIF_NOTE_SIZE (size);
  result = malloc (size);
  if ((result == NULL) && (size != 0)) VERIF_ALLOC_FAIL_HOOK ();
  return result;
}
void *yaep_realloc (struct YaepAllocator *allocator, void *ptr, size_t size)
{
  void *result;
  if (allocator == NULL) return NULL;
  result = realloc (ptr, size);
  if ((result == NULL) && (size != 0)) VERIF_ALLOC_FAIL_HOOK ();
  return result;
}
void yaep_free (struct YaepAllocator *allocator, void *ptr)
{
  if (allocator != NULL) free (ptr);
}
#endif
