/* Trusted model of qsort (A2) for the bounded set D.codes: insertion sort over at most QSORT_MAX elements of at most 32 bytes. */
#ifndef VERIF_QSORT_MODEL_H
#define VERIF_QSORT_MODEL_H
#include <string.h>
#ifndef QSORT_MAX
#define QSORT_MAX 4
#endif
void verif_qsort (void *base, size_t n, size_t size, int (*cmp) (const void *, const void *))
{
  char tmp[32]; size_t i, j; char *b = (char *) base;
  __CPROVER_assert (n <= QSORT_MAX && size <= sizeof (tmp), "qsort model: within the stated bound");
  for (i = 1; i < n; i++)
    for (j = i; j > 0 && cmp (b + (j - 1) * size, b + j * size) > 0; j--)
      { memcpy (tmp, b + j * size, size); memcpy (b + j * size, b + (j - 1) * size, size); memcpy (b + (j - 1) * size, tmp, size); }
}
#endif
