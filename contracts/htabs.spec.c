/* C19 HT.abs: "a hash table finds exactly the elements inserted and not removed", as an INDUCTIVE INVARIANT per operation on the
   real hashtab.c (bounded plain harness).  Start from an ARBITRARY table of SIZE slots over a 4-key universe with an arbitrary hash
   function that satisfies the executable well-formedness predicate HT_WF, run one operation, re-establish HT_WF and the expected
   change of the abstract set.  Because the invariant is inductive this covers histories of any length on tables of that size. */
#include "prelude.h"
#include "hashtab.h"
#ifndef SIZE
#define SIZE 7
#endif
#define NKEYS 4
#define KEY(i) ((hash_table_entry_t) (size_t) ((i) + 2))      /* keys 2..5: distinct from EMPTY (0) and DELETED (1) */
static unsigned H[NKEYS];                                      /* arbitrary hash value of each key */
static unsigned hf (hash_table_entry_t e) { return H[(size_t) e - 2]; }
static int ef (hash_table_entry_t a, hash_table_entry_t b) { return a == b; }
#include "plain/hashtab.c"     /* the pristine copy: no loop contracts are needed in a bounded harness */
#include "alloc_model.h"

static int slot_of (hash_table_t h, int k) { size_t s; for (s = 0; s < SIZE; s++) if (h->entries[s] == KEY (k)) return (int) s; return -1; }
/* well-formedness: counters bound the slots and their difference counts the live elements; no key twice; a present key is reached by its own probe sequence before an EMPTY slot */
static _Bool ht_wf (hash_table_t h)
{
  size_t s, live = 0, del = 0; int k;
  if (h->size != SIZE) return 0;
  for (s = 0; s < SIZE; s++)
    { hash_table_entry_t e = h->entries[s]; if (e == DELETED_ENTRY) del++; else if (e != EMPTY_ENTRY) { if ((size_t) e < 2 || (size_t) e >= 2 + NKEYS) return 0; live++; } }
  /* counters: number_of_elements counts reservations ever made since the last (re)build, number_of_deleted_elements removals; a
     reservation that re-uses a deleted slot increments the first and leaves the second, so the two are upper bounds on the slots,
     and their difference is exactly the number of live elements */
  if (h->number_of_elements < h->number_of_deleted_elements || h->number_of_elements - h->number_of_deleted_elements != live
      || live + del > h->number_of_elements || h->number_of_elements >= SIZE) return 0;
  for (k = 0; k < NKEYS; k++)
    {
      size_t cnt = 0, pos, step, i; _Bool seen_empty = 0, found = 0;
      for (s = 0; s < SIZE; s++) if (h->entries[s] == KEY (k)) cnt++;
      if (cnt > 1) return 0;
      pos = H[k] % SIZE; step = 1 + H[k] % (SIZE - 2);
      for (i = 0; i < SIZE; i++)
        { hash_table_entry_t e = h->entries[pos]; if (e == EMPTY_ENTRY) seen_empty = 1; else if (e == KEY (k)) { found = 1; break; } if (seen_empty) break; pos += step; if (pos >= SIZE) pos -= SIZE; }
      if (cnt == 1 && !found) return 0;
    }
  return 1;
}
static hash_table_t arbitrary_table (void)
{
  hash_table_t h = malloc (sizeof (*h)); int k; size_t s;
  __CPROVER_assume (h != NULL);
  h->entries = malloc (SIZE * sizeof (hash_table_entry_t)); __CPROVER_assume (h->entries != NULL);
  h->size = SIZE; h->hash_function = hf; h->eq_function = ef; HAVOC (h->alloc); __CPROVER_assume (h->alloc != NULL);
  HAVOC (h->searches); HAVOC (h->collisions); __CPROVER_assume (h->searches >= 0 && h->searches < 1000 && h->collisions >= 0 && h->collisions < 1000);
  __CPROVER_assume (all_searches >= 0 && all_searches < 1000 && all_collisions >= 0 && all_collisions < 1000);      /* A-STAT */
  HAVOC (h->number_of_elements); HAVOC (h->number_of_deleted_elements);
  /* only h % SIZE and h % (SIZE-2) are used and the moduli are coprime: restricting the values loses nothing */
  for (k = 0; k < NKEYS; k++) __CPROVER_assume (H[k] < SIZE * (SIZE - 2));
  __CPROVER_assume (ht_wf (h));
  return h;
}
static _Bool present0[NKEYS];
static void snapshot (hash_table_t h) { int k; for (k = 0; k < NKEYS; k++) present0[k] = slot_of (h, k) >= 0; }

void h_abs_find (void)
{
  hash_table_t h = arbitrary_table (); int k, j; _Bool reserve; hash_table_entry_t *p; size_t n0 = h->number_of_elements;
  __CPROVER_assume (k >= 0 && k < NKEYS);
  __CPROVER_assume (h->size / 4 > h->number_of_elements / 3);        /* below the growth threshold (growth is h_abs_expand) */
  snapshot (h);
  p = find_hash_table_entry (h, KEY (k), reserve);
  __CPROVER_assert (present0[k] ? *p == KEY (k) : *p == EMPTY_ENTRY, "find hits iff the key is in the table; an absent key yields an EMPTY slot");
  if (reserve && !present0[k]) { *p = KEY (k); VACUITY_CANARY_N ("inserted"); } else if (present0[k]) VACUITY_CANARY_N ("hit"); else VACUITY_CANARY_N ("miss");
  __CPROVER_assert (ht_wf (h), "the table is well formed after the operation");
  HAVOC (j); __CPROVER_assume (j >= 0 && j < NKEYS);
  __CPROVER_assert ((slot_of (h, j) >= 0) == (present0[j] || (j == k && reserve)), "abstract set: unchanged by a search, plus exactly the key by a reservation that is filled");
  __CPROVER_assert (hash_table_elements_number (h) == h->number_of_elements - h->number_of_deleted_elements, "element count = inserted - removed");
}
void h_abs_remove (void)
{
  hash_table_t h = arbitrary_table (); int k, j;
  __CPROVER_assume (k >= 0 && k < NKEYS);
  __CPROVER_assume (h->size / 4 > h->number_of_elements / 3);
  snapshot (h); __CPROVER_assume (present0[k]);
  remove_element_from_hash_table_entry (h, KEY (k));
  __CPROVER_assert (ht_wf (h), "the table is well formed after removal");
  HAVOC (j); __CPROVER_assume (j >= 0 && j < NKEYS);
  __CPROVER_assert ((slot_of (h, j) >= 0) == (present0[j] && j != k), "abstract set: exactly the removed key disappears");
  VACUITY_CANARY ();
}
void h_abs_empty (void)
{
  hash_table_t h = arbitrary_table (); int j;
  empty_hash_table (h);
  __CPROVER_assert (ht_wf (h), "well formed after emptying");
  HAVOC (j); __CPROVER_assume (j >= 0 && j < NKEYS);
  __CPROVER_assert (slot_of (h, j) < 0 && hash_table_elements_number (h) == 0, "no element is left");
  VACUITY_CANARY ();
}
/* growth: rebuilding into a larger table keeps exactly the live elements, drops the deleted marks, leaves room below the threshold */
void h_abs_expand (void)
{
  hash_table_t h = arbitrary_table (); int j; size_t live0;
  snapshot (h); live0 = h->number_of_elements - h->number_of_deleted_elements;
  expand_hash_table (h);
  __CPROVER_assert (h->size > 2 * live0 && h->size % 2 == 1 && h->number_of_deleted_elements == 0 && h->number_of_elements == live0, "new table: odd size above twice the live count, no deleted marks, counters rebuilt");
  __CPROVER_assert (h->size / 4 > h->number_of_elements / 3, "after growth the table is below the growth threshold again");
  HAVOC (j); __CPROVER_assume (j >= 0 && j < NKEYS);
  { size_t s; _Bool there = 0; for (s = 0; s < h->size && s < 32; s++) if (h->entries[s] == KEY (j)) there = 1;
    __CPROVER_assert (there == present0[j], "abstract set: growth keeps exactly the elements that were in the table"); }
  VACUITY_CANARY ();
}
