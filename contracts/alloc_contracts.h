/* ALLOC / FREE contracts (DESIGN 4.2): what the rest of the library may rely on from
   allocate.c *inside yaep*, where the allocator's error callback never returns
   (error_func_for_allocate -> yaep_error -> longjmp; proved in alloc.spec.c):
   a call returns a fresh block of the requested size with UNDETERMINED contents. */
#ifndef VERIF_ALLOC_CONTRACTS_H
#define VERIF_ALLOC_CONTRACTS_H
#include "allocate.h"
void *yaep_malloc_c (YaepAllocator *a, size_t size)
__CPROVER_requires (size > 0)
__CPROVER_assigns ()
__CPROVER_ensures (__CPROVER_is_fresh (__CPROVER_return_value, size))
;
void yaep_free_c (YaepAllocator *a, void *p)
__CPROVER_requires (p == NULL || __CPROVER_is_freeable (p))
__CPROVER_assigns ()
__CPROVER_frees (p)
;
#endif
