/* API.parse / G.pl / G.pair / G.switch (C15, C14, C05 reset clause, C17 unwinding):
   yaep_parse phase A (normal path + exit assertions) and phase B (error branch text, rule R3),
   with its callees replaced by contracts that carry ghost init/fin counters. */
#include "prelude.h"
#include "yaep_ghost.h"
/* ---- ghost state ---- */
struct grammar;
struct yaep_tree_node;
struct grammar *gh_g;            /* the object the API call was given */
int gh_tok_live, gh_parse_live;  /* per-parse storage initialised and not yet finalised */
int gh_err_code;                 /* code of the error exit taken */
struct yaep_tree_node **gh_root; int *gh_amb;
int gh_early;                    /* harness: the NULL-allocator early return is expected */
#include "yaep.c"
#include "r3_unwind.inc"
#include "alloc_model.h"

#define CUR(g) (grammar == (g) && symbs_ptr == (g)->symbs_ptr && term_sets_ptr == (g)->term_sets_ptr && rules_ptr == (g)->rules_ptr)

/* ERR: the contract every error exit must meet (exit assertions), ensures false = does not return */
#ifdef VERIF_DFCC
void verif_error_exit (int code) { __CPROVER_assume (0); }
#endif
void err_c (int code)
__CPROVER_requires (code > 0)
__CPROVER_requires (grammar == gh_g)                                  /* C14/C15: the error is recorded in the object of this call */
__CPROVER_requires (*gh_root == NULL && *gh_amb == 0)                 /* C05 reset clause: results cleared before any exit */
__CPROVER_requires (code == YAEP_UNDEFINED_OR_BAD_GRAMMAR ==> (gh_tok_live == 0 && gh_parse_live == 0 && pl == NULL))   /* refused before anything is set up */
__CPROVER_assigns (gh_err_code)
__CPROVER_ensures (0)
;

void tok_init_c (void)
__CPROVER_requires (CUR (gh_g) && !gh_g->undefined_p && gh_tok_live == 0)
__CPROVER_assigns (gh_tok_live, toks_len, toks_vlo)
__CPROVER_ensures (gh_tok_live == 1 && toks_len == 0)
;
void read_toks_c (void)
__CPROVER_requires (CUR (gh_g) && gh_tok_live == 1 && toks_len == 0)
__CPROVER_assigns (toks_len, toks, toks_vlo)
__CPROVER_ensures (toks_len >= 1 && toks_len < INT_MAX / 32)    /* at least the end marker; upper bound = assumption A-TOKS */
;
void parse_init_c (int n_toks)
__CPROVER_requires (CUR (gh_g) && gh_tok_live == 1 && gh_parse_live == 0 && n_toks == toks_len)
__CPROVER_assigns (gh_parse_live)
__CPROVER_ensures (gh_parse_live == 1)
;
void build_pl_c (void)
__CPROVER_requires (CUR (gh_g) && gh_tok_live == 1 && gh_parse_live == 1 && pl != NULL && pl_curr == -1)
__CPROVER_assigns (pl_curr, tok_curr, all_collisions, all_searches, n_goto_successes)
__CPROVER_ensures (all_collisions >= __CPROVER_old (all_collisions) && all_searches >= __CPROVER_old (all_searches))
;
struct yaep_tree_node *make_parse_c (int *ambiguous_p)
__CPROVER_requires (CUR (gh_g) && gh_tok_live == 1 && gh_parse_live == 1 && pl != NULL && ambiguous_p == gh_amb)
__CPROVER_assigns (*ambiguous_p, all_collisions, all_searches)
__CPROVER_ensures (all_collisions >= __CPROVER_old (all_collisions) && all_searches >= __CPROVER_old (all_searches))
;
void parse_fin_c (void)
__CPROVER_requires (grammar == gh_g && gh_parse_live == 1)
__CPROVER_assigns (gh_parse_live)
__CPROVER_ensures (gh_parse_live == 0)
;
void tok_fin_c (void)
__CPROVER_requires (grammar == gh_g && gh_tok_live == 1)
__CPROVER_assigns (gh_tok_live, toks_vlo)
__CPROVER_ensures (gh_tok_live == 0)
;

/* ---- phase A: yaep_parse ---- */
int parse_c (struct grammar *g, int (*read) (void **attr),
             void (*error) (int, void *, int, void *, int, void *),
             void *(*alloc) (int nmemb), void (*free) (void *mem), struct yaep_tree_node **root, int *ambiguous_p)
__CPROVER_requires (__CPROVER_is_fresh (g, sizeof (*g)) && __CPROVER_is_fresh (root, sizeof (*root)) && __CPROVER_is_fresh (ambiguous_p, sizeof (int)))
__CPROVER_requires (g->alloc != NULL && gh_g == g && gh_root == root && gh_amb == ambiguous_p)
__CPROVER_requires (pl == NULL)                                   /* PLINV: the library owns no parser list between calls */
__CPROVER_requires (gh_tok_live == 0 && gh_parse_live == 0)
__CPROVER_requires (all_collisions >= 0 && all_searches >= 0)     /* A-STAT */
__CPROVER_requires (gh_early == (alloc == NULL && free != NULL))
__CPROVER_assigns (!gh_early: grammar, symbs_ptr, term_sets_ptr, rules_ptr, read_token, syntax_error, parse_alloc, parse_free, *root, *ambiguous_p,
                   pl, pl_curr, tok_curr, toks_len, toks, toks_vlo, n_goto_successes, all_collisions, all_searches, gh_tok_live, gh_parse_live, gh_err_code;
                   gh_early: g->error_code, __CPROVER_object_upto (g->error_message, sizeof (g->error_message)))
/* NULL allocator with non-NULL free: YAEP_NO_MEMORY, recorded in the object like every other failing call (C15: yaep_error_code equals the code
   returned by the most recent failing call, with a non-empty message); nothing else is touched (the first frame is empty in that case) */
__CPROVER_ensures (gh_early ==> __CPROVER_return_value == YAEP_NO_MEMORY)
__CPROVER_ensures (gh_early ==> (g->error_code == YAEP_NO_MEMORY && g->error_message[0] != 0))
/* otherwise a normal return is a success ... */
__CPROVER_ensures (!gh_early ==> __CPROVER_return_value == 0)
/* ... the object of this call is the current one, its callbacks are installed (defaults when alloc is NULL) ... */
__CPROVER_ensures (!gh_early ==> (CUR (g) && read_token == read && syntax_error == error))
__CPROVER_ensures (!gh_early ==> (alloc != NULL ? (parse_alloc == alloc && parse_free == free) : (parse_alloc == parse_alloc_default && parse_free == parse_free_default)))
/* ... no parser list survives the call and per-parse storage is finalised exactly once */
__CPROVER_ensures (!gh_early ==> (pl == NULL && gh_tok_live == 0 && gh_parse_live == 0))
;

/* ---- phase B: the error branch of yaep_parse (text copied by rule R3) ---- */
void *gh_pl0;
int unwind_parse_c (int code, int tok_init_p, int parse_init_p, int saved_one_parse_p)
__CPROVER_requires (grammar == gh_g && gh_g != NULL && gh_g->alloc != NULL)          /* harness supplies the object */
__CPROVER_requires (gh_pl0 == pl)                                        /* harness: NULL or a live block (a list exists iff pl_create ran) */
/* A3 + static fact S.flags: the flags equal the ghost counters at the jump */
__CPROVER_requires ((tok_init_p != 0) == (gh_tok_live == 1) && (parse_init_p != 0) == (gh_parse_live == 1))
__CPROVER_requires (gh_tok_live >= 0 && gh_tok_live <= 1 && gh_parse_live >= 0 && gh_parse_live <= 1)
__CPROVER_assigns (pl, gh_tok_live, gh_parse_live, toks_vlo, grammar->one_parse_p)
__CPROVER_frees (pl)
__CPROVER_ensures (__CPROVER_return_value == code)                        /* C15: the API call returns the recorded code */
/* C14 / C15: a failing parse leaves the settings of the object as the caller made them - make_parse switches the one-parse flag off for the
   time of its work under the cost flag, and an error exit from inside it skips its own restore (static fact S.oneparse.saved: the value
   handed over here is the one read from the object before the setjmp test, held in a volatile local) */
__CPROVER_ensures (grammar->one_parse_p == saved_one_parse_p)
__CPROVER_ensures (pl == NULL && (gh_pl0 == NULL || __CPROVER_was_freed (gh_pl0)))   /* PLINV restored, list released once */
__CPROVER_ensures (gh_tok_live == 0 && gh_parse_live == 0)               /* storage that was set up is finalised, nothing else */
;

/* ---- pl_* and UB.pl ---- */
#ifndef PL_CAP
#define PL_CAP 4096
#endif
void pl_create_c (void)
__CPROVER_requires (grammar != NULL && grammar->alloc != NULL)
__CPROVER_requires (toks_len >= 0 && toks_len < PL_CAP)
#ifdef VERIF_TRACK_ALLOC_SIZE
__CPROVER_assigns (pl, pl_curr, verif_last_alloc_size)
#else
__CPROVER_assigns (pl, pl_curr)
#endif
__CPROVER_ensures (pl != NULL && __CPROVER_POINTER_OFFSET (pl) == 0)
__CPROVER_ensures (pl_curr == -1)
;
void pl_fin_c (void)
__CPROVER_requires (pl == NULL || (grammar != NULL && grammar->alloc != NULL))
__CPROVER_requires (gh_pl0 == pl)
__CPROVER_assigns (pl)
__CPROVER_frees (pl)
__CPROVER_ensures (pl == NULL && (gh_pl0 == NULL || __CPROVER_was_freed (gh_pl0)))
;

/* ---- harnesses ---- */
#define GH() do { HAVOC (gh_g); HAVOC (gh_tok_live); HAVOC (gh_parse_live); HAVOC (gh_err_code); HAVOC (gh_root); HAVOC (gh_amb); HAVOC (gh_early); HAVOC (gh_pl0); } while (0)
/* file-scope state of the library is arbitrary except what the preconditions say (any call history) */
#define STATICS() do { HAVOC (grammar); HAVOC (symbs_ptr); HAVOC (term_sets_ptr); HAVOC (rules_ptr); HAVOC (read_token); HAVOC (syntax_error); \
  HAVOC (parse_alloc); HAVOC (parse_free); HAVOC (pl); HAVOC (pl_curr); HAVOC (tok_curr); HAVOC (toks_len); HAVOC (toks); HAVOC (n_goto_successes); \
  HAVOC (all_collisions); HAVOC (all_searches); } while (0)
void h_parse (void)
{
  struct grammar *g; int (*rd) (void **); void (*er) (int, void *, int, void *, int, void *); void *(*al) (int); void (*fr) (void *);
  struct yaep_tree_node **root; int *amb; int rc;
  GH (); STATICS ();
  rc = yaep_parse (g, rd, er, al, fr, root, amb);
  if (rc == 0) VACUITY_CANARY_N ("normal return"); else VACUITY_CANARY_N ("early NO_MEMORY return");
}
/* objects reached through file-scope pointers are supplied by the harness (is_fresh is reliable for parameters only) */
static void world (void)
{
  _Bool has_pl, has_g;
  GH (); STATICS ();
  grammar = has_g ? malloc (sizeof (struct grammar)) : NULL;
  __CPROVER_assume (!has_g || grammar != NULL);
  gh_g = grammar;
  pl = has_pl ? malloc (16) : NULL;
  __CPROVER_assume (!has_pl || pl != NULL);
  gh_pl0 = pl;
}
void h_unwind_parse (void)
{
  int code, t, p, o; world ();
  verif_unwind_parse (code, t, p, o);
  if (gh_pl0 == NULL) VACUITY_CANARY_N ("no list"); else VACUITY_CANARY_N ("list released");
}
void h_pl_create (void)
{
  world (); pl_create ();
  /* C12 anchor "parser list capacity": room for 2 * (tokens + 1) sets.  (Checked on the requested size: CBMC's malloc
     model sizes `sizeof (T) * n * 2` as n elements of T, so w_ok on the block itself would be a false alarm.) */
#ifdef VERIF_TRACK_ALLOC_SIZE
  __CPROVER_assert (verif_last_alloc_size == sizeof (struct set *) * ((size_t) toks_len + 1) * 2, "parser list is requested with room for 2*(toks_len+1) sets");
#endif
  VACUITY_CANARY ();
}
void h_pl_fin (void) { world (); pl_fin (); if (gh_pl0 == NULL) VACUITY_CANARY_N ("no list"); else VACUITY_CANARY_N ("list released"); }

/* ---- G.ctx (C14, F18): build_start_set on an object that has been parsed before.  The terminal-set table of the grammar persists
   across parses, so inserting the empty context may report "already there" (a negative number); the situation table must never be
   indexed with it. ---- */
int gh_inserted;
int term_set_insert_c (term_set_el_t *set)
__CPROVER_assigns (gh_inserted)
/* either a new number, or -(number)-1 of the equal set that is already in the table; the empty context, when present, has number 0 */
__CPROVER_ensures (__CPROVER_return_value == 0 || __CPROVER_return_value == -1)
__CPROVER_ensures (gh_inserted == 1)
;
term_set_el_t *term_set_create_c (void) __CPROVER_assigns () __CPROVER_ensures (__CPROVER_is_fresh (__CPROVER_return_value, 8));
void term_set_clear_c (term_set_el_t *s) __CPROVER_assigns (*s) __CPROVER_ensures (1);
void set_new_start_c (void) __CPROVER_assigns () __CPROVER_ensures (1);
struct sit *sit_create_c (struct rule *rule, int pos, int context)
__CPROVER_requires (context >= 0)                                        /* index into the situation table */
__CPROVER_requires (grammar->lookahead_level <= 1 ? context == 0 : 1)
__CPROVER_assigns ()
__CPROVER_ensures (__CPROVER_is_fresh (__CPROVER_return_value, sizeof (struct sit)))
;
void set_new_add_start_sit_c (struct sit *sit, int dist) __CPROVER_assigns () __CPROVER_ensures (1);
int set_insert_c (void) __CPROVER_assigns () __CPROVER_ensures (__CPROVER_return_value == 1);
void expand_new_start_set_c (void) __CPROVER_assigns (new_set) __CPROVER_ensures (1);
void build_start_set_c (void)
__CPROVER_requires (grammar != NULL && grammar->axiom != NULL && pl != NULL)     /* harness supplies the objects */
__CPROVER_assigns (gh_inserted, new_set, *pl)
__CPROVER_ensures (1)
;
void h_build_start_set (void)
{
  struct symb *ax; struct rule *r1, *r2; _Bool two;
  world (); __CPROVER_assume (grammar != NULL && pl != NULL);
  ax = malloc (sizeof (*ax)); r1 = malloc (sizeof (*r1)); r2 = malloc (sizeof (*r2)); __CPROVER_assume (ax != NULL && r1 != NULL && r2 != NULL);
  grammar->axiom = ax; ax->u.nonterm.rules = r1; r1->lhs_next = two ? r2 : NULL; r2->lhs_next = NULL;     /* `$S : S $eof' and possibly `$S : error $eof' */
  HAVOC (gh_inserted); HAVOC (new_set);
  build_start_set ();
  VACUITY_CANARY ();
}

/* ---- T.anode_reset (C13): yaep_parse_init gives every rule a clean per-parse name slot (caller_anode), so no tree of this parse can
   share a parse_alloc block with a tree of an earlier parse ---- */
void sit_init_c (void) __CPROVER_assigns () __CPROVER_ensures (1);
void set_init_c (int n) __CPROVER_assigns () __CPROVER_ensures (1);
void core_symb_vect_init_c (void) __CPROVER_assigns () __CPROVER_ensures (1);
void h_parse_init (void)
{
  struct rules R; struct rule *r[3]; int n, i, nt;
  world (); __CPROVER_assume (n >= 0 && n <= 3);
  for (i = 0; i < 3; i++) { r[i] = malloc (sizeof (struct rule)); __CPROVER_assume (r[i] != NULL); }
  for (i = 0; i < 3; i++) r[i]->next = (i + 1 < n) ? r[i + 1] : NULL;
  R.first_rule = n > 0 ? r[0] : NULL; rules_ptr = &R;
  yaep_parse_init (nt);
  HAVOC (i); __CPROVER_assume (i >= 0 && i < n);
  __CPROVER_assert (r[i]->caller_anode == NULL, "every rule starts the parse without a caller-allocated abstract node name");
  VACUITY_CANARY ();
}
/* debug printer: assumed to write no parser state (V.print is not built) */
void set_print_c (FILE *f, struct set *set, int set_dist, int nonstart_p, int lookahead_p) __CPROVER_assigns () __CPROVER_ensures (1);
