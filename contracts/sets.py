"""Obligation sets.  mode: U unbounded modular (loop contracts), L loop-free full-domain,
B bounded stand-in (never counted as proved), N native bounded stand-in."""
SETS = []


def S(**kw):
    SETS.append(kw)


def setter(name, fn, contract, props=("C15",)):
    S(id="API.set." + name, props=list(props), spec="api.spec.c", harness="h_" + name, mode="L",
      enforce=["%s/%s" % (fn, contract)], functions=[fn],
      what="%s returns the previous value, stores the new one, assigns nothing else" % fn)


setter("set_lookahead", "yaep_set_lookahead_level", "set_lookahead_c", ("C15", "C09"))
setter("set_debug", "yaep_set_debug_level", "set_debug_c")
setter("set_one_parse", "yaep_set_one_parse_flag", "set_one_parse_c")
setter("set_cost", "yaep_set_cost_flag", "set_cost_c")
setter("set_recovery", "yaep_set_error_recovery_flag", "set_recovery_c")
setter("set_match", "yaep_set_recovery_match", "set_match_c")
S(id="API.err.code", props=["C15"], spec="api.spec.c", harness="h_error_code", mode="L", enforce=["yaep_error_code/error_code_c"],
  functions=["yaep_error_code"], what="accessor returns the error_code field, assigns nothing")
S(id="API.err.message", props=["C15"], spec="api.spec.c", harness="h_error_message", mode="L", enforce=["yaep_error_message/error_message_c"],
  functions=["yaep_error_message"], what="accessor returns the message buffer of the object, assigns nothing")

PROPERTY_META = {}
