"""Obligation sets.  mode: U unbounded modular (loop contracts), L loop-free full-domain,
B bounded stand-in (never counted as proved), N native bounded stand-in."""
SETS = []


def S(**kw):
    SETS.append(kw)


def setter(name, fn, contract, props=("C15",)):
    S(id="API.set." + name, props=list(props), spec="api.spec.c", harness="h_" + name, mode="L",
      enforce=["%s/%s" % (fn, contract)], functions=[fn],
      what="%s returns the previous value, stores the new one, assigns nothing else" % fn)


setter("set_lookahead", "yaep_set_lookahead_level", "set_lookahead_c", ("C15", "C09"))
setter("set_debug", "yaep_set_debug_level", "set_debug_c")
setter("set_one_parse", "yaep_set_one_parse_flag", "set_one_parse_c")
setter("set_cost", "yaep_set_cost_flag", "set_cost_c")
setter("set_recovery", "yaep_set_error_recovery_flag", "set_recovery_c")
setter("set_match", "yaep_set_recovery_match", "set_match_c")
S(id="API.err.code", props=["C15"], spec="api.spec.c", harness="h_error_code", mode="L", enforce=["yaep_error_code/error_code_c"],
  functions=["yaep_error_code"], what="accessor returns the error_code field, assigns nothing")
S(id="API.err.message", props=["C15"], spec="api.spec.c", harness="h_error_message", mode="L", enforce=["yaep_error_message/error_message_c"],
  functions=["yaep_error_message"], what="accessor returns the message buffer of the object, assigns nothing")

PROPERTY_META = {}

# ---------------- C19: hashtab.c ----------------
HT = dict(spec="hashtab.spec.c", params={"quick": {"CAP": 8}, "thorough": {"CAP": 64}})
S(id="HT.hpn", props=["C19"], harness="h_hpn", mode="U", loops=True, n_loops=2, enforce=["higher_prime_number/hpn_c"],
  functions=["higher_prime_number"], what="result is odd (partial correctness; '> n' and '<= 2n+3' are the assumed Bertrand clause, N-checked exhaustively in HT.hpn.native)", **HT)
S(id="HT.create", props=["C19", "C12"], harness="h_create", mode="U", loops=True, n_loops=1, enforce=["create_hash_table/create_c"],
  replace=["higher_prime_number/hpn_assumed_c"], functions=["create_hash_table"],
  what="fresh table, every slot EMPTY (ghost index), counters 0, callbacks and allocator stored", **HT)
S(id="HT.empty", props=["C19", "C12"], harness="h_empty", mode="U", loops=True, n_loops=1, enforce=["empty_hash_table/empty_c"],
  functions=["empty_hash_table"], what="every slot EMPTY, counters 0, nothing else assigned", **HT)
S(id="HT.delete", props=["C19", "C12", "C14"], harness="h_delete", mode="L", enforce=["delete_hash_table/delete_c"],
  functions=["delete_hash_table"], what="both blocks released exactly once", **HT)
S(id="HT.find", props=["C19", "C12"], harness="h_find", mode="U", loops=True, n_loops=1, canaries=2, enforce=["find_hash_table_entry/find_c"],
  replace=["expand_hash_table/expand_unreachable_c"], functions=["find_hash_table_entry"], weight=5, timeout=900, cbmc=["--sat-solver", "cadical"], mem=24,
  backend="cbmc 6.11 symex + CaDiCaL (MiniSat needs 5x longer on this set)",
  what="in-bounds aligned result, never a DELETED slot, non-empty result was accepted by eq, count+1 iff reserved, an arbitrary other slot unchanged (deleted slot reused is cleared)", **HT)
S(id="HT.remove", props=["C19", "C12"], harness="h_remove", mode="L", enforce=["remove_element_from_hash_table_entry/remove_c"],
  replace=["find_hash_table_entry/find_for_remove_c"], functions=["remove_element_from_hash_table_entry"],
  what="found slot becomes DELETED, deleted count + 1, every other slot unchanged", **HT)
S(id="HT.size", props=["C19"], harness="h_size", mode="L", enforce=["hash_table_size/size_c"], functions=["hash_table_size"], what="accessor", **HT)
S(id="HT.elements", props=["C19"], harness="h_elements", mode="L", enforce=["hash_table_elements_number/elements_c"], functions=["hash_table_elements_number"],
  what="elements = inserted - deleted", **HT)

# ---------------- C19: objstack.c ----------------
OS = dict(spec="objstack.spec.c", params={"quick": {"CAP": 64}, "thorough": {"CAP": 1024}})
S(id="OS.create", props=["C19", "C12"], harness="h_os_create", mode="L", enforce=["_OS_create_function/os_create_c"], functions=["_OS_create_function"],
  what="fresh first segment of the requested (or default) length, one empty top object at the first payload byte, invariant holds", **OS)
S(id="OS.expand", props=["C19", "C12"], harness="h_os_expand", mode="L", canaries=2, enforce=["_OS_expand_memory/os_expand_c"], functions=["_OS_expand_memory"],
  what="top object moved with same length and bytes (ghost index) and room for the request; old segment released iff it held only the top object, else kept and linked (finished objects never move)", **OS)
for nm, fn, c, extra in [("finish", "w_top_finish", "top_finish_c", []), ("nullify", "w_top_nullify", "top_nullify_c", []),
                         ("shorten", "w_top_shorten", "top_shorten_c", []), ("length", "w_top_length", "top_length_c", []),
                         ("add_byte", "w_top_add_byte", "top_add_byte_c", ["_OS_expand_memory/os_expand_use_c"]),
                         ("add_memory", "w_top_add_memory", "top_add_memory_c", ["_OS_expand_memory/os_expand_use_c"]),
                         ("expand", "w_top_expand", "top_expand_c", ["_OS_expand_memory/os_expand_use_c"])]:
    S(id="OS.top." + nm, props=["C19", "C12"], harness="h_top_" + nm, mode="L", enforce=["%s/%s" % (fn, c)], replace=extra,

      functions=["OS_TOP_%s (macro, via one-line wrapper %s)" % (nm.upper(), fn)],
      what="macro OS_TOP_%s: length arithmetic, appended bytes, earlier bytes unchanged, writes stay inside the segment" % nm.upper(), **OS)

S(id="OS.expand.fail", props=["C17", "C19"], harness="h_os_expand_fail", mode="L", dfcc=False, defines=["VERIF_OS_EXIT_CHECK=1"], instr=["--drop-unused-functions"], cbmc=["--malloc-may-fail", "--malloc-fail-null"],
  functions=["_OS_expand_memory"], what="exit assertion at the memory request inside _OS_expand_memory: when it fails the stack still owns its current segment and its top object (the owner can still delete it)", **OS)
S(id="OS.empty", props=["C19", "C12"], harness="h_os_empty", mode="B", dfcc=False, instr=["--drop-unused-functions"], unwind_all=4, canaries=3, bound="<= 3 segments of arbitrary lengths <= CAP",
  functions=["_OS_empty_function"], what="OS_EMPTY keeps the first segment (the one initial_segment_length describes), releases the later ones once, leaves one empty top object and a boundary inside the kept block", **OS)
# ---------------- C19: vlobject.c ----------------
VLO = dict(spec="vlobject.spec.c", params={"quick": {"CAP": 64}, "thorough": {"CAP": 1024}})
for nm, extra in [("create", []), ("delete", []), ("nullify", []), ("length", []), ("begin", []), ("bound", []), ("shorten", []),
                  ("expand", ["_VLO_expand_memory/vlo_expand_use_c"]), ("add_byte", ["_VLO_expand_memory/vlo_expand_use_c"]),
                  ("add_memory", ["_VLO_expand_memory/vlo_expand_use_c"])]:
    S(id="VLO." + nm, props=["C19", "C12"], harness="h_vlo_" + nm, mode="L", enforce=["w_vlo_%s/vlo_%s_c" % (nm, nm)], replace=extra,
      functions=["VLO_%s (macro, via one-line wrapper w_vlo_%s)" % (nm.upper(), nm)],
      what="macro VLO_%s: length arithmetic, contents (ghost index), writes stay inside the block" % nm.upper(),
      assumes=["A5: contract of _VLO_expand_memory assumed (pointer difference across realloc is outside CBMC's memory model); exercised natively by VLO.grow (N)"] if extra else [], **VLO)
S(id="VLO.grow", props=["C19", "C12"], spec="native/vlo_grow.c", mode="N", link=["vlobject.c", "allocate.c"], harness="main",
  params={"quick": {"K": 48}, "thorough": {"K": 160}}, bound="initial length 0..K, appended 1..K, initial capacity 1,5,9; realloc always moves and poisons",
  functions=["_VLO_expand_memory", "_VLO_tailor_function"], what="contents, length and capacity across realloc-based growth and tailoring (outside CBMC's memory model)")
S(id="HT.history.native", props=["C19"], spec="native/ht_enum.c", mode="N", link=["hashtab.c", "allocate.c"], harness="main",
  params={"quick": {"LEN": 6}, "thorough": {"LEN": 7}}, bound="every sequence of <= 6 (thorough 7) insert/remove/find operations over 4 keys, 5 hash functions (one constant), table growing from 3 slots",
  functions=["create_hash_table", "find_hash_table_entry", "expand_hash_table", "remove_element_from_hash_table_entry", "hash_table_elements_number"],
  what="history-level statement through growth and deletions: find hits exactly the keys inserted and not removed; element count = cardinality")
S(id="HT.cpp.native", props=["C19", "C16"], spec="native/ht_enum_cpp.cpp", mode="N", cc="clang++", link=["hashtab.cpp", "allocate.c"], harness="main",
  params={"quick": {"LEN": 5}, "thorough": {"LEN": 7}}, bound="every sequence of <= 5 (thorough 7) insert/remove/find operations over 4 keys, 5 hash functions, table growing from 3 slots",
  functions=["hash_table::hash_table", "hash_table::find_entry", "hash_table::expand_hash_table", "hash_table::remove_element_from_entry"],
  what="C++ twin (class hash_table of hashtab.cpp): same history-level statement as HT.history.native")
S(id="OSVLO.cpp.native", props=["C19", "C16"], spec="native/osvlo_enum_cpp.cpp", mode="N", cc="clang++", link=["objstack.cpp", "vlobject.cpp", "allocate.c"], harness="main",
  params={"quick": {"LEN": 5}, "thorough": {"LEN": 6}}, bound="every sequence of <= 5 (thorough 6) of 9 operations on class os (segment lengths 13/16/24) and class vlo (initial lengths 1/16/24), realloc always moves",
  functions=["os::*", "vlo::*"], what="C++ twins: finished objects of an object stack never move or change, the top object and a VLO hold exactly the bytes appended minus those shortened")
S(id="OSVLO.history.native", props=["C19"], spec="native/osvlo_enum.c", mode="N", link=["objstack.c", "vlobject.c", "allocate.c"], harness="main",
  params={"quick": {"LEN": 5}, "thorough": {"LEN": 6}}, bound="every sequence of <= 5 (thorough 6) of 9 operations on an os_t (segment lengths 13/16/24) and a vlo_t (initial lengths 1/16/24), realloc always moves",
  functions=["OS_* macros", "_OS_expand_memory", "_OS_add_string_function", "VLO_* macros", "_VLO_expand_memory", "_VLO_tailor_function", "_VLO_add_string_function"],
  what="history-level statements: finished objects of an object stack never move or change, the top object and a VLO hold exactly the bytes appended minus those shortened, wherever they are reallocated")
S(id="A.fail.native", props=["C17"], spec="native/alloc_fail_enum.c", mode="N", link=["allocate.c", "hashtab.c", "objstack.c", "vlobject.c", "yaep.c"], harness="main", timeout=3000,
  bound="every k up to the last memory request of: yaep_create_grammar, yaep_parse_grammar, yaep_read_grammar, yaep_parse on three short inputs/settings of one expression grammar, on a 61-token sentence, on a 61-token input with syntax errors (all parses), and on an ambiguous cost grammar with all parses and with one parse under the cost flag (about 1200 failure points); after the failing call the settings of the object are what the caller made them; fresh memory is filled with junk",
  functions=["yaep_create_grammar", "yaep_parse_grammar", "yaep_read_grammar", "yaep_parse", "yaep_free_grammar"],
  what="the k-th memory request of the call fails (libc allocator interposed), for every k: NULL / YAEP_NO_MEMORY, no crash, the object is still usable and can be freed, another object is unaffected")
S(id="D.diff.native", props=["C11"], spec="native/desc_diff_enum.c", mode="N", sanitize="undefined", link=["allocate.c", "hashtab.c", "objstack.c", "vlobject.c", "yaep.c"], harness="main", timeout=3600,
  params={"quick": {"NSYM": 3, "INLEN": 2}, "thorough": {"NSYM": 4, "INLEN": 3}},
  bound="descriptions with one rule of 1..2 alternatives of <= 2 symbols over {'a', B, N} (thorough + C=7) and 7 translation forms; right-hand sides of 1..130 symbols; inputs of length <= 2 (thorough 3); with/without cost flag",
  functions=["yaep_parse_grammar", "yyparse (bison actions)", "set_sgrammar", "sread_terminal", "sread_rule"],
  what="yaep_parse_grammar on a description and yaep_read_grammar on the grammar the text denotes give the same definition result and the same parse results and trees (names, costs, codes)")
S(id="P.cost.native", props=["C04"], spec="native/cost_enum.c", mode="N", link=["allocate.c", "hashtab.c", "objstack.c", "vlobject.c", "yaep.c"], harness="main", timeout=3000,
  params={"quick": {"CMAX": 2}, "thorough": {"CMAX": 3}},
  bound="five ambiguous description families (three alternatives for one token; an ambiguous symbol twice under a common node; two binary rules and a leaf rule over a^1..a^4; alternatives that "
        "keep different children; ambiguity two levels down), abstract-node costs 0..2 (thorough 0..3) in every combination, lookahead 0..2, one / all parses, default allocator and a caller-supplied parse_alloc without parse_free",
  functions=["yaep_parse", "make_parse", "find_minimal_translation", "prune_to_minimal", "traverse_pruned_translation"],
  what="the oracle is the enumeration of the all-parses result without cost flag: with the flag the denoted set is exactly the minimal-cost translations (all parses) or one of them, without ALT "
       "node (one parse); every cost field is own cost + the children's fields and the root carries the minimum; without the flag the fields are the rules' own costs")
S(id="T.pair.native", props=["C13"], spec="native/pair_enum.c", mode="N", link=["allocate.c", "hashtab.c", "objstack.c", "vlobject.c", "yaep.c"], harness="main", timeout=3600,
  params={"quick": {"NSYM": 3, "INLEN": 2, "PAIR_ALTS": 1}, "thorough": {"NSYM": 3, "INLEN": 2, "PAIR_ALTS": 2}},
  bound="descriptions with one rule of 1 (thorough 2) alternatives of <= 2 symbols over {'a', B, N} and 7 translation forms, inputs of length <= 2; plus 216 ambiguous descriptions (2-3 alternatives for one token with abstract-node costs 1..3 in every order: flat, nested under S : P P, under a common node); ambiguous sums of 2..6 operands in three translation forms (the table of kept blocks of the cost pruning grows while nodes are released); one/all parses; with/without cost flag",
  functions=["yaep_parse", "make_parse", "find_minimal_translation", "yaep_free_tree", "yaep_free_grammar"],
  what="whole-parse ownership: parse_free only gets blocks parse_alloc returned during this parse, at most once, never NULL; everything reachable from the root is live after the parse and after "
       "yaep_free_grammar; yaep_free_tree releases every block exactly once, termcb once per TERM node; no block of the parse stays unreleased")
S(id="HT.hpn.native", props=["C19"], spec="native/ht_prime.c", mode="N", link=["hashtab.c", "allocate.c"], harness="main",
  params={"quick": {"K": 20000}, "thorough": {"K": 200000}}, bound="all requested sizes 0..K (20 000, thorough 200 000)",
  functions=["higher_prime_number"], what="assumed clause of hpn_assumed_c: result is a prime in (n, 2n+3]")

S(id="X.diff.native", props=["C16"], spec="native/cxx_diff.cpp", mode="N", cc="clang++", link_verif=["native/cxx_cside.c"],
  link=["allocate.c", "hashtab.c", "objstack.c", "vlobject.c", "hashtab.cpp", "objstack.cpp", "vlobject.cpp", "yaep.cpp"], harness="main", timeout=3000,
  params={"quick": {"INLEN": 3, "LONGLEN": 301, "WIDEN": 300}, "thorough": {"INLEN": 4, "LONGLEN": 2001, "WIDEN": 2100}},
  bound="both real libraries in one program: three grammars x 100 configurations (lookahead -1..3, one parse, cost, recovery - only together with one parse and no cost flag: F38 -, own allocator) x every input of <= 3 (thorough 4) tokens; 21 rejected / odd descriptions; "
        "10 callback grammars (9 with one defect); 16 two-object histories x 6 configurations; inputs of 301 (thorough 2001) tokens so that the containers grow; 17 sizes x 3 grammar shapes (n alternatives, n-symbol right-hand sides, n-character names, n <= 700, thorough 2100) x 2 configurations, each object redefined three times",
  functions=["yaep::yaep", "yaep::~yaep", "yaep::error_code", "yaep::error_message", "yaep::read_grammar", "yaep::parse_grammar", "yaep::set_*", "yaep::parse", "yaep::free_tree",
             "yaep.c compiled as C++ on hash_table / os / vlo (macro layer of yaep.cpp)"],
  what="class yaep (libyaep++) and the C functions (libyaep) give the same return codes, error codes and messages, syntax_error callbacks, ambiguity flags, trees (types, names, costs, codes, attributes, sharing) "
       "and the same parse_free / termcb calls in free_tree, with no block left")

XX_REC = [("yaep_create_grammar", "rec_create"), ("yaep_free_grammar", "rec_free"), ("yaep_error_code", "rec_error_code"), ("yaep_error_message", "rec_error_message"),
          ("yaep_read_grammar", "rec_read_grammar"), ("yaep_parse_grammar", "rec_parse_grammar"), ("yaep_set_lookahead_level", "rec_set_lookahead"),
          ("yaep_set_debug_level", "rec_set_debug"), ("yaep_set_one_parse_flag", "rec_set_one_parse"), ("yaep_set_cost_flag", "rec_set_cost"),
          ("yaep_set_error_recovery_flag", "rec_set_recovery"), ("yaep_set_recovery_match", "rec_set_match"), ("yaep_parse", "rec_parse"), ("yaep_free_tree", "rec_free_tree")]
# ---------------- C16: interface layer of yaep.cpp (staging rule R9) ----------------
for _m, _cf, _rec in [("ctor", "yaep_create_grammar", "rec_create"), ("dtor", "yaep_free_grammar", "rec_free"), ("error_code", "yaep_error_code", "rec_error_code"),
                      ("error_message", "yaep_error_message", "rec_error_message"), ("read_grammar", "yaep_read_grammar", "rec_read_grammar"),
                      ("parse_grammar", "yaep_parse_grammar", "rec_parse_grammar"), ("set_lookahead_level", "yaep_set_lookahead_level", "rec_set_lookahead"),
                      ("set_debug_level", "yaep_set_debug_level", "rec_set_debug"), ("set_one_parse_flag", "yaep_set_one_parse_flag", "rec_set_one_parse"),
                      ("set_cost_flag", "yaep_set_cost_flag", "rec_set_cost"), ("set_error_recovery_flag", "yaep_set_error_recovery_flag", "rec_set_recovery"),
                      ("set_recovery_match", "yaep_set_recovery_match", "rec_set_match"), ("parse", "yaep_parse", "rec_parse"), ("free_tree", "yaep_free_tree", "rec_free_tree")]:
    S(id="X.fwd." + _m, props=["C16"], spec="cxx.spec.c", harness="h_xx_" + _m, mode="L", enforce=["yaepxx_%s/xx_%s_c" % (_m, _m)],
      replace=["%s/%s" % (c, r) for c, r in XX_REC],
      functions=["yaep::%s (yaep.cpp, extracted to C by staging rule R9; body verbatim)" % {"ctor": "yaep", "dtor": "~yaep"}.get(_m, _m)],
      what="the member calls %s, and no other function of the C interface, exactly once, on the wrapped grammar object, with its own arguments in order; returns its result; assigns nothing else" % _cf)

S(id="E.wide.native", props=["C12", "C14"], spec="native/wide_enum.c", mode="N", link=["allocate.c", "hashtab.c", "objstack.c", "vlobject.c", "yaep.c"], harness="main", timeout=3000,
  params={"quick": {"WIDE_MAX": 300}, "thorough": {"WIDE_MAX": 1200}},
  bound="24 sizes n in 1..300 (thorough ..1200) around the growth points of the containers x 3 grammar shapes x lookahead 0..2, each with four redefinitions of the same object",
  functions=["yaep_parse_grammar", "yaep_read_grammar", "yaep_parse", "core_symb_vect_new", "vlo_array_expand", "rule_new_symb_add", "yylex", "yaep_empty_grammar"],
  what="grammars that make the per-grammar and per-set containers grow (n alternatives in one set, right-hand sides of n symbols, names of n characters): defined, parsed, redefined on the same "
       "object and parsed again without any memory error (ASan's realloc always moves), with the expected trees")

S(id="E.recover.native", props=["C12"], spec="native/recover_enum.c", mode="N", link=["allocate.c", "hashtab.c", "objstack.c", "vlobject.c", "yaep.c"], harness="main", timeout=3000,
  params={"quick": {"RLEN": 4}, "thorough": {"RLEN": 6}},
  bound="every input of <= 4 (thorough 6) tokens over 5 terminals of an expression grammar with an explicit error rule, recovery_match 1..3, lookahead 0..2, one parse; all parses for inputs of <= 3 (thorough 5) tokens, each in a child process",
  functions=["build_pl", "error_recovery", "make_parse (after a recovery)"],
  what="inside error recovery, which no contract reaches: no memory error, and every syntax_error call gets 0 <= first ignored <= first recovered <= token count, an error token inside the input, "
       "increasing error tokens and the attributes of the reported indices (these numbers index the token array in build_pl: F36)")

# ---------------- C15 / C14 / C17: yaep_parse ----------------
PARSE_REPL = ["verif_error_exit/err_c", "tok_init/tok_init_c", "read_toks/read_toks_c", "yaep_parse_init/parse_init_c", "build_pl/build_pl_c",
              "make_parse/make_parse_c", "yaep_parse_fin/parse_fin_c", "tok_fin/tok_fin_c"]
S(id="API.parse", props=["C15", "C14", "C17", "C05"], spec="parse.spec.c", harness="h_parse", mode="L", canaries=2, object_bits=10,
  enforce=["yaep_parse/parse_c"], replace=PARSE_REPL, functions=["yaep_parse", "pl_init", "pl_create", "pl_fin"],
  what="phase A: NULL allocator with non-NULL free returns YAEP_NO_MEMORY with an empty frame; otherwise returns 0, the object is current, callbacks installed, "
       "no parser list survives, per-parse storage finalised once; exit assertions at every error exit: error recorded in this object, *root/*ambiguous_p reset, "
       "undefined grammar refused before anything is initialised",
  assumes=["A7: contracts of tok_init, read_toks, yaep_parse_init, build_pl, make_parse, yaep_parse_fin, tok_fin are assumed here (parser internals)",
           "A-TOKS: fewer than INT_MAX/32 tokens", "A-STAT: statistics counters non-negative"])
S(id="API.parse.unwind", props=["C15", "C14", "C17"], spec="parse.spec.c", harness="h_unwind_parse", mode="L", canaries=2,
  enforce=["verif_unwind_parse/unwind_parse_c"], replace=["yaep_parse_fin/parse_fin_c", "tok_fin/tok_fin_c"], functions=["yaep_parse (error branch, rule R3)", "pl_fin"],
  what="phase B: the error branch returns the recorded code, releases the parser list once and resets the pointer, finalises exactly the storage that was initialised",
  assumes=["A3: after longjmp the two flag locals of yaep_parse hold their last written values (equal to the ghost counters; static fact S.flags)"])
S(id="G.pl.create", props=["C14", "C12"], spec="parse.spec.c", harness="h_pl_create", mode="L", defines=["VERIF_TRACK_ALLOC_SIZE"], enforce=["pl_create/pl_create_c"], functions=["pl_create"],
  what="UB.pl: size computation does not overflow for toks_len < INT_MAX/32; fresh list of 2*(toks_len+1) slots")
S(id="G.pl.fin", props=["C14"], spec="parse.spec.c", harness="h_pl_fin", mode="L", canaries=2, enforce=["pl_fin/pl_fin_c"], functions=["pl_fin"],
  what="list released once and pointer reset (PLINV)")

# ---------------- C15 / C12: token layer ----------------
S(id="TOK.find", props=["C15", "C12"], spec="tok.spec.c", harness="h_find_by_code", mode="L", canaries=2, enforce=["symb_find_by_code/find_by_code_c"],
  replace=["find_hash_table_entry/find_code_c"], functions=["symb_find_by_code"],
  what="with VEC_INV at the slot read (or TABLE_INV of the code table): result is NULL or a terminal with exactly that code; outside [start,end) NULL; no access outside the vector",
  assumes=["TABLE_INV: a hit of the code hash table is a terminal with the looked-up code (HT.abs + symb_code_eq)"])
S(id="TOK.vec", props=["C15", "C12"], spec="tok.spec.c", harness="h_finish_terms", mode="B", dfcc=True, loops=True, n_loops=1, canaries=2,
  params={"quick": {"NT": 3, "SPAN": 12}, "thorough": {"NT": 5, "SPAN": 40}}, timeout=1500,
  unwind_all={"quick": 5, "thorough": 7},
  bound="<= 3 (thorough 5) terminals with distinct codes >= -2, either all within 12 (thorough 40) of the smallest or at least one >= 9998 (no vector); the NULL-fill loop is closed by its loop contract",
  functions=["symb_finish_adding_terms", "term_get"],
  what="VEC_INV established for every slot (ghost index): NULL or the terminal with exactly that code; every declared terminal found at its code; span arithmetic without overflow")
S(id="TOK.add", props=["C15", "C12"], spec="tok.spec.c", harness="h_tok_add", mode="L", enforce=["tok_add/tok_add_c"],
  replace=["symb_find_by_code/find_by_code_use_c", "verif_error_exit/err_tok_c", "_VLO_expand_memory/vlo_expand_use_c"], functions=["tok_add"],
  what="unknown code exits with YAEP_INVALID_TOKEN_CODE (exit assertion: the lookup returned NULL, error recorded in this object); known code appended as (terminal with exactly that code, attr)",
  assumes=["A5: contract of _VLO_expand_memory assumed"])
S(id="TOK.read", props=["C15"], spec="tok.spec.c", harness="h_read_toks", mode="U", loops=True, n_loops=1, enforce=["read_toks/read_toks_c"],
  replace=["tok_add/tok_add_use_c"], functions=["read_toks"],
  what="every non-negative code delivered by read_token is passed to tok_add unchanged; reading stops at the first negative code; the end marker with NULL attribute is appended last; read_token is not called again")

# ---------------- C14 / C15 / C17: grammar object lifecycle ----------------
S(id="G.create", props=["C14", "C15", "C17"], spec="gram.spec.c", harness="h_create", mode="L", canaries=2, enforce=["yaep_create_grammar/create_c"],
  replace=["yaep_alloc_new/alloc_new_c", "yaep_alloc_seterr/alloc_seterr_c", "yaep_alloc_getuserptr/alloc_getuserptr_c", "yaep_malloc/malloc_first_c",
           "yaep_alloc_del/alloc_del_c", "symb_init/symb_init_c", "term_set_init/term_set_init_c", "rule_init/rule_init_c", "yaep_free_grammar/free_use_c"],
  functions=["yaep_create_grammar"],
  what="phase A: NULL (allocator released) or a fresh undefined object with error state cleared and the documented defaults, current grammar switched to it; "
       "exit assertions at every allocation site: never the default (process-terminating) handler, object unwindable (every storage pointer NULL or built)",
  assumes=["A7: symb_init, term_set_init, rule_init return fresh storage (assumed contracts; their allocation sites carry the same exit assertion)"])
S(id="G.create.unwind", props=["C17", "C14"], spec="gram.spec.c", harness="h_unwind_create", mode="L", enforce=["verif_unwind_create_grammar/unwind_create_c"],
  replace=["yaep_free_grammar/free_use_c"], functions=["yaep_create_grammar (error branch, rule R3)"],
  what="phase B: from any state satisfying the exit assertion the branch releases the half-built object once and returns NULL")
S(id="G.free", props=["C14", "C17"], spec="gram.spec.c", harness="h_free", mode="L", canaries=2, enforce=["yaep_free_grammar/free_c"],
  replace=["rule_fin/rule_fin_c", "term_set_fin/term_set_fin_c", "symb_fin/symb_fin_c", "yaep_free/free_obj_c", "yaep_alloc_del/alloc_del_c"],
  functions=["yaep_free_grammar", "pl_fin"],
  what="with ARBITRARY file-scope state (current grammar NULL or another object): the three storages, the object and its allocator are released exactly once each, "
       "through this object's allocator, in an order that never uses the object after it is gone; grammar == NULL and no parser list afterwards")
S(id="D.front", props=["C11", "C14", "C15", "C17"], spec="gram.spec.c", harness="h_parse_grammar", mode="L", canaries=2, enforce=["yaep_parse_grammar/parse_grammar_c"],
  replace=["set_sgrammar/set_sgrammar_c", "yaep_read_grammar/read_grammar_use_c", "free_sgrammar/free_sgrammar_c"], functions=["yaep_parse_grammar"],
  what="the argument is made the current grammar before the front end can fail (errors recorded in this object); a front-end failure returns its code; otherwise "
       "exactly what yaep_read_grammar returned on the replayed records; the intermediate form is released exactly once on every path")

# ---------------- C14 / C17: storage layer of a grammar object ----------------
ST = dict(spec="store.spec.c", link=["hashtab.c"], cbmc=["--unwindset", "empty_hash_table.0:6", "--unwinding-assertions"])
for nm, fn, c, rep in [("symb_fin", "symb_fin", "symb_fin_c", ["_OS_delete_function/os_delete_c"]),
                       ("term_set_fin", "term_set_fin", "term_set_fin_c", ["_OS_delete_function/os_delete_c"]),
                       ("rule_fin", "rule_fin", "rule_fin_c", ["_OS_delete_function/os_delete_c"])]:
    S(id="G.free." + nm, props=["C14", "C17"], harness="h_" + nm, mode="L", timeout=1200, enforce=["%s/%s" % (fn, c)], replace=rep, functions=[fn, "delete_hash_table"],
      what="%s releases the container, its reference arrays, tables and code vector exactly once each through the current grammar's allocator (real free: CBMC's double/invalid free checks apply)" % fn, **ST)
for nm, fn, c, rep in [("symb_empty", "symb_empty", "symb_empty_c", ["_OS_empty_function/os_empty_c"]),
                       ("term_set_empty", "term_set_empty", "term_set_empty_c", ["_OS_empty_function/os_empty_c"]),
                       ("rule_empty", "rule_empty", "rule_empty_c", ["_OS_empty_function/os_empty_c"])]:
    S(id="G.fresh." + nm, props=["C14"], harness="h_" + nm, mode="B", dfcc=True, enforce=["%s/%s" % (fn, c)], replace=rep, functions=[fn, "empty_hash_table"],
      bound="hash tables of <= 4 slots (empty_hash_table's loop unwound; its unbounded proof is HT.empty)",
      what="%s leaves no symbol / set / rule behind: counters 0, tables empty (ghost slot), reference arrays empty, code vector released" % fn, **ST)
S(id="G.fresh.empty_grammar", props=["C14"], spec="store.spec.c", harness="h_empty_grammar", mode="L", enforce=["yaep_empty_grammar/empty_grammar_c"],
  replace=["rule_empty/rule_empty_use_c", "term_set_empty/term_set_empty_use_c", "symb_empty/symb_empty_use_c"], functions=["yaep_empty_grammar"],
  what="all three storages of the CURRENT grammar are emptied exactly once")

# ---------------- per-property evidence text ----------------
TB_COMMON = ["models/alloc_model.h: allocate.c with the function pointers resolved to libc and the non-returning error branch cut (A.wrap/A.cb prove both facts on the real allocate.c)"]
A_COMMON = [
    "A3: longjmp resumes at the setjmp site with memory as at the jump; the two flag locals of yaep_parse hold their last written values",
    "A4: LP64, two's complement; malloc'ed blocks are 8-aligned",
    "A5b: DFCC-mode text differs from the real text exactly by rule R2 (error call sites non-variadic) and the swallowed fprintf: format arguments of error calls and of debug output are not evaluated",
    "A6: caller-supplied callbacks return and do not call back into yaep",
    "termination is not verified except where a decreases clause is stated",
]
PROPERTY_META = {
    "C19": dict(trusted_base=TB_COMMON, assumptions=A_COMMON + [
        "A-STAT: recorded as known finding F17 (int statistics counters)",
        "A5: _VLO_expand_memory / _VLO_tailor_function are outside CBMC's memory model (pointer difference across realloc): native stand-in VLO.grow only; callers use its assumed contract",
        "hpn_assumed_c: higher_prime_number(n) is a prime in (n, 2n+3] (Bertrand); native exhaustive stand-in HT.hpn.native up to the cap"],
        unverified=["termination of the probe loop of find_hash_table_entry", "tables / objects larger than the stated caps (CAP)", "expand_hash_table beyond the bounded set",
                    "history-level statement 'finds exactly the elements inserted and not removed' is carried per operation (HT.find/HT.remove/HT.create/HT.empty postconditions over an arbitrary slot); composition over histories is the paper induction of DESIGN 4.4",
                    "C++ twins hashtab.cpp / objstack.cpp / vlobject.cpp (CBMC's C++ front end: see DESIGN)"],
        explanation="C19: per-operation contracts on the real hashtab.c, objstack.c (incl. macros through one-line wrappers) and vlobject.c macros."),
    "C15": dict(trusted_base=TB_COMMON, assumptions=A_COMMON + ["A7: contracts of the parser internals called by yaep_parse (tok_init, read_toks, yaep_parse_init, build_pl, make_parse, yaep_parse_fin, tok_fin) are assumed in API.parse; read_toks and tok_add are enforced separately (TOK.*)",
                                                  "TABLE_INV: a hit of the code hash table is a terminal with the looked-up code"],
        unverified=["build_pl, make_parse, yaep_parse_init/fin internals", "message text of yaep_error beyond 'fits and is NUL-terminated'"],
        explanation="C15: setters/accessors loop-free full domain; yaep_parse phase A/B; token layer; yaep_create_grammar defaults."),
    "C14": dict(trusted_base=TB_COMMON, assumptions=A_COMMON + ["A7 as for C15", "induction over API calls (DESIGN 4.4): every API function is enforced from arbitrary file-scope state + object invariant + PLINV and re-establishes them"],
        unverified=["'returns what a fresh object would return' beyond the state equalities proved (needs functional correctness of the parser, C01)", "yaep_read_grammar body beyond its prefix (see C10)"],
        explanation="C14: lifecycle (create/free/redefine/parse) contracts with unconstrained file-scope state."),
    "C17": dict(trusted_base=TB_COMMON, assumptions=A_COMMON + ["A7 as for C15"],
        unverified=["allocation sites inside build_pl / make_parse / error_recovery and the per-parse tables: that the containers satisfy their invariants at those sites is assumed; the unwinding branch they jump to is verified (API.parse.unwind)",
                    "F11: set_sgrammar's error branch deletes containers that were not created yet (known finding)"],
        explanation="C17: exit protocol: every allocation site under contract carries the exit assertion; the four unwinding branches are verified from any state satisfying it."),
    "C10": dict(trusted_base=TB_COMMON, assumptions=A_COMMON + ["R5-R8: yaep_read_grammar is cut into four regions mechanically on every run (anchors must fire; together they are the whole function); the hand-over of state from one region to the next is checked by reading",
                                                  "A7: symbol-table lookups answer 'found' iff the name/code was added before (HT.* of C19 + T.copy.term / T.copy.nonterm / T.find.repr / TOK.find, composed on paper)"],
        unverified=["set_empty_access_derives, set_loop_p: the flags as least fixpoints (bounded native stand-in RG.verdict.native only)", "create_first_follow_sets", "rules with more than 8 right-hand side names or translation numbers (RG.rule's array cap)"],
        explanation="C10: every region of yaep_read_grammar under contract (witness condition per error code, completeness on the normal path, exact rule record), check_grammar's verdicts given the flags."),
    "C11": dict(trusted_base=TB_COMMON + ["models/ctype_table.h (glibc C-locale classification table)", "models/qsort_model.h (insertion sort) for the bounded code-assignment set"], assumptions=A_COMMON,
        unverified=["the LALR automaton generated by bison and its semantic actions (token text -> records)", "token text accumulation on the object stack inside yylex (stated drop; OS.top.* cover the macros)"],
        explanation="C11: lexer (all loops closed), front-end protocol of yaep_parse_grammar, replay callbacks; implicit code assignment bounded."),
    "C13": dict(trusted_base=TB_COMMON, assumptions=A_COMMON, unverified=["pairing of parse_alloc/parse_free over a whole yaep_parse (make_parse)", "yaep_free_tree beyond the bounded shapes", "release loop of find_minimal_translation (native demonstration F14 only)"],
        explanation="C13: constructors of tree nodes request exactly-sized blocks from parse_alloc and write only those."),
    "C04": dict(trusted_base=TB_COMMON, assumptions=A_COMMON + ["A-COST: subtree cost totals stay below INT_MAX"], unverified=["recursive cases of prune_to_minimal (sum over children, minimum over alternatives)", "that make_parse built all derivations first (C03)"],
        explanation="C04: base cases of the pruning recursion, cost copy, single restoration of shared nodes."),
    "C16": dict(trusted_base=TB_COMMON + ["staging rule R9: the rewriting of the members of class yaep to C (qualified name -> prefixed function with an explicit object parameter, this-> -> this_->; bodies verbatim) is trusted"],
        assumptions=A_COMMON + ["A-CXX: a C++ member call passes the object and the arguments like the C call the extraction writes; construction / destruction of the object itself (new / delete) is not modelled",
                                "the rest of libyaep++ is yaep.c itself compiled as C++ over the macro layer of yaep.cpp: identical text, so agreement reduces to the container twins (bounded native stand-ins HT.cpp.native, OSVLO.cpp.native) and is observed end to end by X.diff.native (bounded)"],
        unverified=["hashtab.cpp / objstack.cpp / vlobject.cpp as contracts (CBMC's C++ front end rejects class os and contract syntax): bounded native stand-ins only", "the macro layer of yaep.cpp (29 one-line macros) is exercised, not proved",
                    "differences a C++ compiler may introduce when compiling yaep.c as C++"],
        explanation="C16: interface layer proved (each member forwards to its C function once, same object, same arguments, same result); the rest bounded: both real libraries driven side by side."),
    "C12": dict(trusted_base=TB_COMMON, assumptions=A_COMMON, unverified=["absence of UB inside build_new_set, expand_new_start_set, error_recovery, make_parse, yyparse", "bounded time (termination)"],
        explanation="C12: all built-in safety classes of every function under contract (aggregated) + targeted anchors (message buffer, code vector, lexer, parser-list size)."),
}

# ---------------- C17: allocate.c ----------------
for nm, fn, c, can in [("malloc", "yaep_malloc", "ymalloc_c", 2), ("realloc", "yaep_realloc", "yrealloc_c", 2), ("calloc", "yaep_calloc", "ycalloc_c", 2),
                       ("free", "yaep_free", "yfree_c", 1), ("seterr", "yaep_alloc_seterr", "seterr_c", 1), ("getuserptr", "yaep_alloc_getuserptr", "getuserptr_c", 1),
                       ("geterrfunc", "yaep_alloc_geterrfunc", "geterrfunc_c", 1)]:
    S(id="A.wrap." + nm, props=["C17", "C12"], spec="alloc.spec.c", harness="h_y" + nm if nm in ("malloc", "realloc", "calloc", "free") else "h_" + nm, mode="L",
      canaries=can, enforce=["%s/%s" % (fn, c)], functions=[fn],
      defines=["malloc=vl_malloc", "calloc=vl_calloc", "realloc=vl_realloc", "free=vl_free"],   # goto-instrument 6.11 crashes when libc allocators are used as pointer values
      what="%s: a failed non-empty request is reported exactly once through the installed error function with the installed user pointer; a NULL allocator is tolerated" % fn
           if can == 2 else "%s: accessor / setter frame" % fn)
S(id="A.cb", props=["C17"], spec="gram.spec.c", harness="h_errfunc", mode="L", enforce=["error_func_for_allocate/errfunc_c"], replace=["verif_error_exit/err_nomem_c"],
  functions=["error_func_for_allocate"], what="the error callback yaep installs raises YAEP_NO_MEMORY through yaep_error and never returns (so a failed request never hands NULL back to the containers)")
S(id="API.err.raise", props=["C15", "C12"], spec="err.spec.c", harness="h_yaep_error", mode="L", dfcc=False, instr=["--drop-unused-functions"],
  defines=["vsnprintf=verif_vsnprintf", "longjmp=verif_longjmp"], expect_fail=[], functions=["yaep_error"],
  what="faithful mode (real variadic text): the code raised is stored in the current grammar and is the value the API call returns; the message is formatted into the "
       "object's buffer with a size that fits it, is non-empty and NUL-terminated; yaep_error never returns",
  assumes=["A2: models of vsnprintf (writes at most n-1 characters and a NUL) and longjmp (never returns)"])

# ---------------- C12 / C11: description lexer ----------------
S(id="UB.lex", props=["C12", "C11"], spec="lex.spec.c", harness="h_yylex", mode="U", loops=True, n_loops=5, canaries=6, split=16, timeout=900, object_bits=10,
  enforce=["yaep_yylex/yylex_c"], replace=["verif_error_exit/err_lex_c", "strcmp/strcmp_c"], defines=["__ctype_b_loc=verif_ctype_b_loc"],
  params={"quick": {"LEXN": 12}, "thorough": {"LEXN": 48}}, functions=["yylex (sgramm.y)", "yyerror"],
  what="the cursor never moves past the terminating NUL of the description (all five loops closed by invariants); number accumulation and line counter do not overflow; "
       "token kinds by first character ('c' => CHAR with closing quote, digits => NUMBER, letters => IDENT/SEM_IDENT/TERM, punctuation, end of text); "
       "a syntax error reports a line number inside the text",
  assumes=["A2: glibc C-locale ctype table (models/ctype_table.h)",
           "stated drop: token-text writes to the object stack `stoks' are no-ops in this set (covered by OS.top.*); strcmp against \"TERM\" abstracted"])

# ---------------- C13 T.size / C04 P.step ----------------
S(id="T.size.place", props=["C13", "C12"], spec="tree.spec.c", harness="h_place", mode="L", canaries=3, enforce=["place_translation/place_c"], functions=["place_translation"],
  what="first translation stored as is; otherwise a NULL-terminated ALT list whose new first alternative is the node passed in (an alternative is never an ALT); "
       "only node-sized blocks are requested from parse_alloc, only parse_alloc memory and *place are written")
S(id="T.size.copy", props=["C13", "C12", "C04"], spec="tree.spec.c", harness="h_copy_anode", mode="U", loops=True, n_loops=1, enforce=["copy_anode/copy_anode_c"],
  replace=["place_translation/place_use_c"], functions=["copy_anode"], params={"quick": {"TL": 8}, "thorough": {"TL": 64}},
  what="one block of sizeof(node) + (trans_len + 1) child slots; node fields and children copied (ghost index), displaced child cleared, NULL terminator kept")
TREE_B = dict(spec="tree.spec.c", mode="B", dfcc=False, instr=["--drop-unused-functions"], unwind_all=5, rec_unwind=3, timeout=600)
S(id="P.restore", props=["C04"], harness="h_traverse", canaries=2, functions=["traverse_pruned_translation"], bound="parent with one child or the same child twice",
  what="cost fields hold the subtree totals afterwards; a node reached through two parents/slots is restored once", **TREE_B)

# ---------------- supporting static facts (mode S: assumption checks, never counted as proved) ----------------
S(id="S.flags", props=["C14", "C15", "C17"], mode="S", static="flags", spec="", harness="", bound="syntactic", functions=["yaep_parse"],
  what="in yaep_parse each *_init () call is immediately followed by its flag assignment and the flags are cleared before setjmp (justifies flag == ghost counter in phase B)")
S(id="S.oneparse", props=["C14", "C15", "C04"], mode="S", static="oneparse", spec="", harness="", bound="syntactic", functions=["make_parse"],
  what="make_parse restores grammar->one_parse_p unconditionally on its only exit path (settings are not changed by a parse)")
S(id="S.fmt", props=["C15", "C12"], mode="S", static="fmt", spec="", harness="", bound="syntactic", functions=["yaep_error call sites"],
  what="every error call site passes a literal format that starts with text (message non-empty)")

# ---------------- C11: description intermediate form ----------------
DESC = dict(spec="desc.spec.c", dfcc=False, instr=["--drop-unused-functions"])
S(id="D.codes", props=["C11"], harness="h_codes", mode="B", unwind_all={"quick": 5, "thorough": 6}, unwind_over={"strncpy.": 101, "verif_error_va.": 64}, rec_unwind=5, timeout=1200, params={"quick": {"NR": 3}, "thorough": {"NR": 4}},
  bound="<= 3 (thorough 4) records over a two-name universe, codes -1 (implicit) or 0..300", functions=["set_sgrammar (tail, rule R4)", "sterm_name_cmp", "sterm_num_cmp"],
  what="one record per name is left; implicit codes are >= 256, distinct and increase in order of first appearance; a name declared repeatedly with the same explicit code keeps it",
  assumes=["A2: qsort model (insertion sort); the region starts with code == 256 (static fact from R4: initialiser 256, no assignment before the region)"], **DESC)
S(id="D.codes.conflict", props=["C11"], harness="h_codes_conflict", mode="B", unwind_all=5, unwind_over={"strncpy.": 101, "verif_error_va.": 64}, rec_unwind=5, params={"quick": {"NR": 3}}, timeout=600,
  bound="two records", functions=["set_sgrammar (tail, rule R4)"], what="same name with two different explicit codes is reported as YAEP_REPEATED_TERM_CODE", **DESC)
S(id="UB.msg.arg", props=["C12", "C11"], harness="h_codes_longname", mode="B", unwind_all=5, unwind_over={"strncpy.": 101, "strcmp.": 123, "check_cstr.": 125, "verif_error_va.": 64}, rec_unwind=5, params={"quick": {"NR": 3}}, timeout=1500,
  bound="symbol names of 1..120 characters (the local buffer holds 100)", functions=["set_sgrammar (tail, rule R4)"],
  what="the name copied into the local buffer for the 'described repeatedly with different code' message is NUL-terminated however long the name is", **DESC)
S(id="D.replay.term", props=["C11"], harness="h_sread_terminal", mode="L", canaries=2, functions=["sread_terminal"], what="record i delivered unchanged, NULL after the last", **DESC)
S(id="D.replay.rule", props=["C11"], harness="h_sread_rule", mode="L", canaries=2, functions=["sread_rule"], what="rule i delivered unchanged, NULL after the last", **DESC)
S(id="P.step.base", props=["C04"], spec="tree.spec.c", harness="h_prune_base", mode="L", canaries=2, enforce=["prune_to_minimal/prune_base_c"],
  cbmc=["--unwind", "2", "--unwinding-assertions"], functions=["prune_to_minimal"],
  what="base cases, full domain: a NIL/ERROR/TERM node costs 0; an already processed (shared) abstract node reports its recorded total and nothing else is written "
       "(the recursive branches are unreachable under this precondition: unwinding assertions prove it)")

# ---------------- C10 / C14: yaep_read_grammar, first region ----------------
S(id="RG.prefix", props=["C10", "C14", "C15"], spec="rg.spec.c", harness="h_rg_prefix", mode="U", loops=True, n_loops=1, canaries=2,
  enforce=["verif_rg_prefix/rg_prefix_c"], replace=["verif_error_exit/err_rg_c", "yaep_empty_grammar/empty_grammar_c", "symb_find_by_repr/find_repr_c",
                                                     "symb_find_by_code/find_code_c", "symb_add_term/add_term_c"],
  functions=["yaep_read_grammar (first region, rule R5: switch, setjmp test, emptying, terminal loop)"],
  what="from ARBITRARY file-scope state and any previous content of the object: the argument becomes the current grammar before anything can fail, is emptied and marked undefined "
       "before the first callback; every error exit leaves it undefined and names a defect really delivered (negative code / name found / code found); a terminal is added only "
       "when new by name and code, exactly as delivered; on normal end no defect was delivered",
  assumes=["A7: symb_find_by_repr / symb_find_by_code answer 'found' iff the name / code was added before (C19 HT.* + symb_add_term, composed on paper)",
           "R5: the region is cut from yaep_read_grammar on every run; the rest of the function (rule intake, checks) is not covered by this set"])
S(id="T.free.native", props=["C13"], spec="native/free_tree_enum.c", mode="N", link=["allocate.c", "hashtab.c", "objstack.c", "vlobject.c", "yaep.c"], harness="main",
  params={"quick": {"MAXKIDS": 2}, "thorough": {"MAXKIDS": 3}}, timeout=1500,
  bound="all DAGs with 2 TERM, 1 NIL, 1 ERROR leaf and <= 3 layered abstract nodes of <= 2 (thorough 3) children, name sharing, ALT root over the top two (114 597 shapes at the quick bound)",
  functions=["yaep_free_tree", "free_tree_reduce", "free_tree_sweep"],
  what="every block reachable from the root goes to parse_free exactly once, nothing else does (never NULL), termcb once per TERM. "
       "(The CBMC versions of this set - three bounded plain harnesses - did not finish in 25 minutes each and were dropped.)")

# ---------------- C12: terminal sets ----------------
for nm, fn, lp in [("up", "term_set_up", 0), ("test", "term_set_test", 0), ("clear", "term_set_clear", 1), ("copy", "term_set_copy", 1), ("or", "term_set_or", 1)]:
    S(id="UB.tset." + nm, props=["C12"], spec="tset.spec.c", harness="h_tset_" + nm, mode="U" if lp else "L", loops=bool(lp), n_loops=lp,
      tier="thorough" if nm in ("copy", "or") else "quick",
      enforce=["%s/tset_%s_c" % (fn, nm)], params={"quick": {"CAPT": 64 if lp else 4096}, "thorough": {"CAPT": 512 if lp else 100000}}, functions=[fn], timeout=1200,
      what="%s: word accesses inside the set of ((n_terms+63)/64) words, no shift/sign overflow, effect stated over an arbitrary word (ghost index)" % fn)
S(id="G.ctx", props=["C14", "C12"], spec="parse.spec.c", harness="h_build_start_set", mode="B", dfcc=True, enforce=["build_start_set/build_start_set_c"],
  replace=["term_set_insert/term_set_insert_c", "term_set_create/term_set_create_c", "term_set_clear/term_set_clear_c", "set_new_start/set_new_start_c",
           "sit_create/sit_create_c", "set_new_add_start_sit/set_new_add_start_sit_c", "set_insert/set_insert_c", "expand_new_start_set/expand_new_start_set_c",
           "set_print/set_print_c"],
  unwind_all=4, assumes=["the debug printer set_print writes no parser state (assumed contract)"], bound="the start symbol $S has 1 or 2 rules (always the case: `$S : S $eof' and optionally `$S : error $eof')", functions=["build_start_set"],
  what="whether the empty context is new in the grammar's terminal-set table or already there from an earlier parse, the situation table is indexed with a non-negative context "
       "(0 for lookahead levels 0 and 1)")


# sets still being brought up: not part of any tier until they are green on the unchanged tree (run with --sets <id>)
for _s in SETS:
    if _s["id"] in ():
        _s["disabled"] = "work in progress"
S(id="T.anode_reset", props=["C13", "C14"], spec="parse.spec.c", harness="h_parse_init", mode="B", dfcc=True,
  replace=["sit_init/sit_init_c", "set_init/set_init_c", "core_symb_vect_init/core_symb_vect_init_c"], unwind_all=5,
  bound="grammars with <= 3 rules (list walk unwound)", functions=["yaep_parse_init"],
  what="every rule's caller_anode is NULL when a parse starts (abstract-node names are allocated per parse, never shared between trees of different parses)")

# ---------------- C19: hash table contents as an inductive invariant (bounded) ----------------
HTABS = dict(spec="htabs.spec.c", mode="B", dfcc=False,
             # below the growth threshold the expansion branch is dead: its body is replaced by assert(false); assume(false), so reaching it is a failed obligation
             instr=["--remove-function-body", "expand_hash_table", "--generate-function-body", "expand_hash_table", "--generate-function-body-options", "assert-false-assume-false",
                    "--drop-unused-functions"], params={"quick": {"SIZE": 7}, "thorough": {"SIZE": 13}},
             unwind_all={"quick": 9, "thorough": 15}, rec_unwind=2, timeout=1800, mem=40, cbmc=["--sat-solver", "cadical"],
             bound="tables of 7 (thorough 13) slots, 4-key universe, arbitrary hash function; inductive, so histories of any length on a table of that size",
             functions=["find_hash_table_entry", "remove_element_from_hash_table_entry", "empty_hash_table", "hash_table_elements_number"])
S(id="HT.abs.find", props=["C19"], harness="h_abs_find", canaries=3, what="search / reserve+fill from an ARBITRARY well-formed table: find hits iff the key is in the abstract set, an absent key yields an EMPTY slot, "
  "well-formedness and the abstract set are maintained (deleted slots are re-used correctly)", **HTABS)
S(id="HT.abs.remove", props=["C19"], harness="h_abs_remove", what="removal from an arbitrary well-formed table: exactly that key disappears, well-formedness kept", **HTABS)
S(id="HT.abs.empty", props=["C19"], harness="h_abs_empty", what="emptying an arbitrary well-formed table leaves no element", **HTABS)
S(id="HT.abs.expand", props=["C19"], harness="h_abs_expand", what="growth from an arbitrary well-formed table keeps exactly the live elements, drops deleted marks and leaves the table below the threshold; "
  "the nested expansion inside the re-insertions is unreachable (recursion unwinding assertion)",
  **dict(HTABS, instr=["--drop-unused-functions"], params={"quick": {"SIZE": 5}, "thorough": {"SIZE": 5}}, unwind_all={"quick": 14, "thorough": 14}, rec_unwind=2, tier="thorough", disabled="work in progress"))

# ---------------- C10: flags and verdicts (bounded) ----------------
FLG = dict(spec="flags.spec.c", mode="B", dfcc=False, instr=["--drop-unused-functions"], params={"quick": {"NN": 2, "NRU": 2}, "thorough": {"NN": 2, "NRU": 3}},
           unwind_all={"quick": 6, "thorough": 7}, rec_unwind=2, timeout=3000, mem=40, tier="thorough",
           bound="axiom + 2 nonterminals + 1 terminal, <= 2 (thorough 3) arbitrary rules with right-hand sides of length <= 2")
S(id="RG.flags", props=["C10"], harness="h_flags", functions=["set_empty_access_derives", "set_loop_p", "symb_get", "nonterm_get"],
  what="empty_p / derivation_p / access_p equal the least fixpoints of nullable / productive / reachable, loop_p <=> the nonterminal can derive itself", **FLG)
for _s in SETS:
    if _s["id"] == "RG.flags":
        _s["disabled"] = "work in progress"
S(id="S.codes256", props=["C11"], mode="S", static="codes256", spec="", harness="", bound="syntactic", functions=["set_sgrammar"],
  what="implicit code numbering starts from the value 256 that D.codes assumes (initialiser, no assignment before the region)")


# native demonstrations (API-level regression inputs, real library under ASan/UBSan) run when an obligation of the set fails
DEMOS = {"API.parse": ["F1"], "API.parse.unwind": ["F1", "F25"], "S.flags": ["F25"], "G.pl.fin": ["F1"], "TOK.vec": ["F2", "F2b"], "TOK.find": ["F2"], "API.err.raise": ["F3"],
         "RG.prefix": ["F4"], "D.front": ["F5"], "G.free": ["F6", "F1"], "G.free.symb_fin": ["F6"], "UB.lex": ["F7", "F9"], "D.codes": ["F8"], "S.codes256": ["F8"],
         "G.create": ["F10"], "P.step.base": ["F13"], "P.restore": ["F13"], "G.ctx": ["F18"], "UB.tset.up": ["F21"], "UB.tset.test": ["F21"]}
# + demonstration programs written by the independent sub-agents for their seeded changes (API-level, public headers only)
for k, v in {"RG.prefix": ["S_C15_m1"], "A.fail.native": ["F33"], "E.vlo_array.expand": ["F33"], "RG.check": ["F27"], "RG.rule": ["F32"], "RG.verdict.native": ["F27"], "D.diff.native": ["F32"], "G.history.native": ["F18", "F6", "F4", "F1"], "RG.intake.native": ["F28"], "G.free": ["S_C14_m2"], "G.create": ["S_C17_m1"], "TOK.find": ["S_C12_m2"], "UB.lex": ["S_C11_m1"], "UB.msg.arg": ["S_C12_m1"],
             "OS.top.add_byte": ["S_C19_m2"], "HT.remove": ["S_C19_m1"], "A.wrap.realloc": ["S_C17_m2"], "D.front": ["S_C17_m3"], "P.step.base": ["S_C04_m1"],
             "T.size.copy": ["S_C04_m2"], "S.oneparse": ["S_C14_m1"], "T.anode_reset": ["S_C13_m1"], "T.free.native": ["S_C13_m2", "F26"], "VLO.grow": ["S_C19_m3"]}.items():
    DEMOS[k] = DEMOS.get(k, []) + v
for _s in SETS:
    if _s["id"] in DEMOS:
        _s["demos"] = DEMOS[_s["id"]]
S(id="RG.verdict.native", props=["C10"], spec="native/rg_enum.c", mode="N", link=["allocate.c", "hashtab.c", "objstack.c", "vlobject.c", "yaep.c"], harness="main",
  params={"quick": {"NRULES": 3, "CHAIN": 10}, "thorough": {"NRULES": 4, "CHAIN": 16}}, timeout=3000,
  bound="every grammar with <= 3 (thorough 4) rules over 3 nonterminals and 1 terminal, right-hand sides of length <= 2, strict and non-strict; unit-rule chains of length 1..10",
  functions=["yaep_read_grammar", "set_empty_access_derives", "set_loop_p", "check_grammar"],
  what="through the public API: returns 0 iff the grammar has no unproductive / unreachable (strict) / self-deriving nonterminal by a least-fixpoint specification; "
       "a nonzero code names a defect that is present and equals yaep_error_code")
S(id="RG.intake.native", props=["C10"], spec="native/rg_intake_enum.c", mode="N", link=["allocate.c", "hashtab.c", "objstack.c", "vlobject.c", "yaep.c"], harness="main", timeout=3000,
  bound="terminal lists of <= 3 entries drawn from 9 (negative / repeated codes, repeated and reserved names), one rule from 5 lhs x 5 rhs x 11 translation lists x abstract node x cost",
  functions=["yaep_read_grammar"],
  what="through the public API: returns 0 iff none of the documented intake defects is present; a nonzero code names a defect that is present, equals yaep_error_code, "
       "the message is non-empty and the object then refuses to parse")
S(id="UB.uninit.history", props=["C12"], spec="native/history_enum.c", mode="N", sanitize="memory", link=["allocate.c", "hashtab.c", "objstack.c", "vlobject.c", "yaep.c"], harness="main",
  params={"quick": {"LEN": 4}, "thorough": {"LEN": 5}}, timeout=3000,
  bound="every applicable history of <= 4 (thorough 5) operations over two objects (the space of G.history.native), the library built with MemorySanitizer",
  functions=["yaep_create_grammar", "yaep_parse_grammar", "yaep_read_grammar", "yaep_parse", "yaep_free_grammar", "yaep_free_tree"],
  what="no branch, address or library call of the real code depends on uninitialised memory along any of the histories (definitions that fail, parses with error recovery, redefinitions, frees)")
S(id="UB.uninit.trees", props=["C12"], spec="native/cost_enum.c", mode="N", sanitize="memory", link=["allocate.c", "hashtab.c", "objstack.c", "vlobject.c", "yaep.c"], harness="main",
  params={"quick": {"CMAX": 1, "UNINIT_ONLY": 1}, "thorough": {"CMAX": 2, "UNINIT_ONLY": 1}}, timeout=3000,
  bound="the ambiguous cost families of P.cost.native with costs 0..1 (thorough 0..2), the library built with MemorySanitizer",
  functions=["yaep_parse", "make_parse", "find_minimal_translation", "yaep_free_tree"],
  what="no use of uninitialised memory while ambiguous DAGs are built, pruned by cost, walked and freed")
S(id="UB.uninit.pair", props=["C12"], spec="native/pair_enum.c", mode="N", sanitize="memory", link=["allocate.c", "hashtab.c", "objstack.c", "vlobject.c", "yaep.c"], harness="main", timeout=3000,
  params={"quick": {"NSYM": 3, "INLEN": 2, "PAIR_ALTS": 1}, "thorough": {"NSYM": 3, "INLEN": 2, "PAIR_ALTS": 2}},
  bound="the description families of T.pair.native (incl. the ambiguous cost family), the library built with MemorySanitizer",
  functions=["yaep_parse_grammar", "yaep_parse", "make_parse", "find_minimal_translation", "yaep_free_tree", "yaep_free_grammar"],
  what="no use of uninitialised memory from the description text to the freed tree, with the caller's tracking allocator, one / all parses, with / without cost flag")
S(id="G.history.native", props=["C14", "C15"], spec="native/history_enum.c", mode="N", link=["allocate.c", "hashtab.c", "objstack.c", "vlobject.c", "yaep.c"], harness="main",
  params={"quick": {"LEN": 5}, "thorough": {"LEN": 6}}, timeout=3000,
  bound="every applicable history of <= 5 (thorough 6) operations over two objects; 12 operations (create, 3 definitions, 2 lookahead settings, cost flag, all parses, 3 parses, free)",
  functions=["yaep_create_grammar", "yaep_parse_grammar", "yaep_read_grammar", "yaep_set_lookahead_level", "yaep_parse", "yaep_free_grammar", "yaep_free_tree"],
  what="each call returns what a fresh object with the same definition and settings returns (return codes, yaep_error_code, root, syntax-error calls); no memory error, nothing leaked at the end (ASan/LSan)")
S(id="OS.string", props=["C19", "C12", "C13"], harness="h_os_add_string", mode="L", canaries=2, enforce=["_OS_add_string_function/os_add_string_c"],
  replace=["_OS_expand_memory/os_expand_use_c", "strlen/strlen_gh_c"], functions=["_OS_add_string_function"],
  what="the string with its NUL is appended after dropping the previous terminator; appended bytes equal the source (ghost index), earlier bytes unchanged, writes stay inside the segment",
  assumes=["A2: strlen returns the index of the terminating NUL (contract tied to a ghost length)"], **OS)
S(id="T.copy.term", props=["C13", "C12"], spec="symtab.spec.c", harness="h_add_term", mode="L", enforce=["symb_add_term/add_term_c"],
  replace=["find_hash_table_entry/find_slot_c", "_OS_add_string_function/os_add_string_use_c", "_OS_expand_memory/os_expand_use_c", "_VLO_expand_memory/vlo_expand_use_c"],
  functions=["symb_add_term"], params={"quick": {"CAP": 32}, "thorough": {"CAP": 256}},
  what="the terminal record gets the code and the next numbers; its name is a COPY inside the grammar's object stack (different object, equal bytes: ghost index); "
       "the record is appended to both reference arrays and stored in the slot(s) the table(s) reserved for it; all writes stay inside the containers",
  assumes=["A5: _VLO_expand_memory contract assumed", "the string and segment contracts are those proved by OS.string / OS.expand, restated for an empty top object"])
S(id="T.copy.nonterm", props=["C13", "C12"], spec="symtab.spec.c", harness="h_add_nonterm", mode="L", enforce=["symb_add_nonterm/add_nonterm_c"],
  replace=["find_hash_table_entry/find_slot_c", "_OS_add_string_function/os_add_string_use_c", "_OS_expand_memory/os_expand_use_c", "_VLO_expand_memory/vlo_expand_use_c"],
  functions=["symb_add_nonterm"], params={"quick": {"CAP": 32}, "thorough": {"CAP": 256}},
  what="the nonterminal record gets the next numbers, no rules and no loop mark; its name is a COPY inside the grammar's object stack (different object, equal bytes: ghost index); "
       "the record is appended to both reference arrays and stored in the slot(s) the table(s) reserved for it; all writes stay inside the containers",
  assumes=["A5: _VLO_expand_memory contract assumed", "the string and segment contracts are those proved by OS.string / OS.expand, restated for an empty top object"])
S(id="D.unwind", props=["C17", "C11"], spec="gram.spec.c", harness="h_free_sgrammar", mode="L", canaries=3, enforce=["free_sgrammar/free_sgrammar_enf_c"],
  replace=["_OS_delete_function/os_delete_sg_c", "yaep_free/vlo_free_sg_c"], functions=["free_sgrammar", "set_sgrammar (error branch)"],
  what="whatever the number (0..5) of containers of the intermediate form created when a memory request failed, exactly those are released, once each")
S(id="RG.tail", props=["C10", "C14"], spec="rgtail.spec.c", harness="h_rg_tail", mode="B", dfcc=True, canaries=2, enforce=["verif_rg_tail/rg_tail_c"],
  replace=["verif_error_exit/err_tail_c", "rule_new_start/rule_new_start_c", "rule_new_symb_add/rule_new_symb_add_c", "rule_new_stop/rule_new_stop_c", "check_grammar/check_grammar_c",
           "symb_finish_adding_terms/finish_terms_c", "rule_print/rule_print_c", "term_set_print/term_set_print_c", "nonterm_get/nonterm_get_c"],
  unwind_all=4, bound="the start symbol has <= 2 rules (list walk unwound)", functions=["yaep_read_grammar (last region, rule R6)"],
  what="NO_RULES only when no rule was read; `$S : error $eof' is added iff no rule of the start symbol begins with `error'; the grammar is checked while still marked undefined, "
       "the code vector is built after the check, and undefined_p is cleared as the last action",
  assumes=["R6: the region is cut from yaep_read_grammar on every run", "debug output of the region is not modelled (printers replaced by empty contracts)"])
S(id="RG.rule", props=["C10", "C12"], spec="rgrule.spec.c", harness="h_rg_rule", mode="B", dfcc=True, loops=True, n_loops=2, canaries=4, object_bits=10,
  cex={"prog": "rg_rule_cex", "vars": ["cex_rl", "cex_tl", "cex_anode", "cex_cost", "cex_has_tr"] + ["gh_tv[%dl]" % k for k in range(8)]}, enforce=["verif_rg_rule/rg_rule_c"],
  replace=["verif_error_exit/err_rule_c", "symb_find_by_repr/find_repr2_c", "symb_find_by_code/find_code2_c", "symb_add_nonterm/add_nonterm2_c", "symb_add_term/add_term2_c",
           "rule_new_start/rns_c", "rule_new_symb_add/rnsa_c", "rule_new_stop/rnstop_c"],
  bound="a rule has <= 8 right-hand side names and <= 8 translation numbers (facts about all entries of the two arrays are written out entry by entry); "
        "both loops of the body are closed by loop contracts, nothing is unwound",
  functions=["yaep_read_grammar (body of the rule-intake loop, rule R7)"],
  what="for ONE delivered rule, from any state of the definition: every error exit names a defect really present in what was delivered (left-hand side found as terminal; reserved symbol "
       "found for the name just looked up; >= 2 translated symbols without abstract node; negative cost with abstract node; a translation number out of range and not `-'; "
       "a position named twice); on normal end none of these is present, and the rule record has the delivered length, cost, abstract node, order[] (order[p] == index of the entry "
       "naming p) and exactly as many translation children as entries that name a position or are `-' under an abstract node; the first rule makes $S, $eof and `$S : <start> $eof' -> 0",
  assumes=["A7: symb_find_by_repr answers NULL or a symbol of the table (arbitrary which); negative codes are never in the table (RG.prefix adds only codes >= 0)",
           "R7: the loop body is cut from yaep_read_grammar on every run; the loop header and the four statements before it (error symbol) are not covered by this set",
           "rule_new_start as proved by T.copy.rule, rule_new_symb_add / rule_new_stop by T.rule.add / T.rule.stop (restated without the storage)"])
S(id="RG.rules", props=["C10", "C14"], spec="rgloop.spec.c", harness="h_rg_rules", mode="U", loops=True, n_loops=1, canaries=2, enforce=["verif_rg_rules/rg_rules_c"],
  replace=["verif_error_exit/err_loop_c", "symb_find_by_repr/find_repr3_c", "symb_find_by_code/find_code3_c", "symb_add_term/add_term3_c", "verif_rg_rule/rg_rule_use_c"],
  functions=["yaep_read_grammar (middle region, rule R8: error symbol and rule-intake loop around the R7 body)"],
  what="`error' is looked up before it is added (FIXED_NAME_USAGE exactly when the name is taken) and gets the reserved code; $S and $eof start out absent; the callback runs on "
       "an object still marked undefined; each delivered rule reaches the body exactly as delivered; on normal end $S / $eof exist iff at least one rule was delivered and then "
       "the start symbol is known (what the NO_RULES test of RG.tail relies on)",
  assumes=["A7': negative codes are never in the table here", "R8: region cut on every run, loop body replaced by a call of the R7 function (proved by RG.rule, used here through a reduced contract)",
           "termination of the loop is the callback's business (no variant)"])
S(id="RG.check", props=["C10"], spec="rgcheck.spec.c", harness="h_check", mode="U", loops=True, n_loops=2, canaries=2, object_bits=10, enforce=["check_grammar/check_c"],
  replace=["verif_error_exit/err_check_c", "set_empty_access_derives/flags1_c", "set_loop_p/flags2_c", "create_first_follow_sets/first_follow_c", "nonterm_get/nonterm_get_c"],
  functions=["check_grammar"],
  what="given the flags (arbitrary values on real nonterminal records): both flag passes run, in order, before anything is tested; NONTERM_DERIVATION / UNACCESSIBLE_NONTERM / "
       "LOOP_NONTERM are raised only for a nonterminal that has that defect (non-strict: only for the start symbol of the user grammar), in that order of precedence; on normal end "
       "no nonterminal of the table has a defect the mode looks for (ghost index), and only then FIRST / FOLLOW are made",
  assumes=["the flags themselves (least fixpoints) are RG.verdict.native's business (bounded); nonterm_get answers record n of the table or NULL from the count on",
           "table size capped by the harness array (64 records); both loops closed by contracts"])
S(id="T.get", props=["C12", "C10"], spec="symtab.spec.c", harness="h_get", mode="L", canaries=2, enforce=["symb_get/symb_get_c", "term_get/term_get_c", "nonterm_get/nonterm_get_c"],
  functions=["symb_get", "term_get", "nonterm_get"], params={"quick": {"CAP": 8}, "thorough": {"CAP": 64}},
  what="element n of the reference array for 0 <= n < count, NULL for every other n (negative, at or beyond the count): no read outside the array; nothing is written "
       "(this is the contract RG.check and the debug listing of RG.tail assume for nonterm_get)")
S(id="T.find.repr", props=["C12", "C10"], spec="symtab.spec.c", harness="h_find_repr", mode="L", canaries=2, enforce=["symb_find_by_repr/find_repr_real_c"],
  replace=["find_hash_table_entry/lookup_slot_c"], functions=["symb_find_by_repr"], params={"quick": {"CAP": 8}, "thorough": {"CAP": 64}},
  what="the lookup by name asks the name table, without reservation, with a key that carries the given name, and answers with the content of the slot the table returns "
       "(the key lives on the stack of the call: nothing keeps its address); with HT.find / HT.abs.* and T.copy.* this is one half of assumption A7")
S(id="E.set.add_start", props=["C12"], spec="earley.spec.c", harness="h_add_start", mode="L", canaries=2, enforce=["set_new_add_start_sit/add_start_c"],
  replace=["_OS_expand_memory/os_expand_two_c"], functions=["set_new_add_start_sit"], params={"quick": {"CAP": 8, "NCAP": 3}, "thorough": {"CAP": 16, "NCAP": 6}}, mem=32, timeout=1500,
  bound="the set being formed holds <= 2 (thorough 5) pairs before the call; the function has no loop",
  what="Earley core primitive: the parallel arrays of situations and distances on top of two object stacks both grow by exactly one element holding the pair; what was in them stays "
       "(ghost byte per array) also when an array moves to a new segment; new_sits / new_dists point at the arrays where they now are; the count goes up by one; all writes stay inside the stacks",
  assumes=["the segment contract is the one proved by OS.expand, restated with a ghost byte per stack"])
S(id="E.set.add_initial", props=["C12"], spec="earley.spec.c", harness="h_add_initial", mode="U", loops=True, n_loops=1, canaries=2, enforce=["set_new_add_initial_sit/add_initial_c"],
  replace=["_OS_expand_memory/os_expand_two_c"], functions=["set_new_add_initial_sit"], params={"quick": {"CAP": 8, "NCAP": 3}, "thorough": {"CAP": 16, "NCAP": 6}}, mem=32, timeout=1500,
  what="Earley core primitive: a non-start situation is appended to the situation array unless it is already among the non-start situations (search loop closed by its contract); on "
       "append the array grows by one element holding it, the rest stays (ghost byte), new_sits and the core's sits pointer are refreshed; otherwise nothing changes",
  assumes=["array size capped by NCAP elements (object size only)", "the segment contract is the one proved by OS.expand, restated with a ghost byte"])
S(id="E.set.add_nonstart", props=["C12"], spec="earley.spec.c", harness="h_add_nonstart", mode="U", loops=True, n_loops=1, canaries=2, enforce=["set_add_new_nonstart_sit/add_nonstart_c"],
  replace=["_OS_expand_memory/os_expand_three_c"], functions=["set_add_new_nonstart_sit"], params={"quick": {"CAP": 8, "NCAP": 3}, "thorough": {"CAP": 16, "NCAP": 3}}, mem=32, timeout=1500,
  bound="<= 2 situations in the set before the call (with at most 2 start situations the biased pointer stays inside the segment; see E.set.add_nonstart.bias for F34)",
  what="Earley core primitive: a (situation, parent index) pair is appended to the non-start part of the set being formed unless the search loop (closed by its contract) finds it; on append "
       "the situation array and the parent-index array (which has no entries for start situations and is addressed through a pointer biased by their number) both grow by one element "
       "holding the pair, the rest stays (ghost bytes), all pointers are refreshed, n_sits and n_all_dists stay equal; otherwise nothing changes",
  assumes=["call-site precondition n_all_dists == n_sits (add_derived_nonstart_sits runs before any initial situation is added: read, not proved)",
           "array size capped by NCAP elements (object size only)", "the segment contract is the one proved by OS.expand, restated with ghost bytes"])
S(id="E.set.add_nonstart.bias", props=["C12"], spec="earley.spec.c", harness="h_add_nonstart", mode="U", loops=True, n_loops=1, canaries=2, enforce=["set_add_new_nonstart_sit/add_nonstart_c"],
  replace=["_OS_expand_memory/os_expand_three_c"], functions=["set_add_new_nonstart_sit"], params={"quick": {"CAP": 16, "NCAP": 6}, "thorough": {"CAP": 16, "NCAP": 6}}, mem=32, timeout=1500, tier="thorough",
  what="the same contract with up to 5 start situations: the parent-index pointer biased by -n_start_sits is then formed BEFORE the start of the segment block when the top object begins "
       "closer to it than that (F34); the verifier reports the accesses through that pointer, everything else is discharged",
  assumes=["as E.set.add_nonstart"])
S(id="E.set.dists_hash", props=["C12"], spec="earley.spec.c", harness="h_dists_hash", mode="U", loops=True, n_loops=1, canaries=2, enforce=["setup_set_dists_hash/dists_hash_c"],
  functions=["setup_set_dists_hash"], params={"quick": {"DMAX": 64}, "thorough": {"DMAX": 1024}},
  what="the hash of a set's distance vector reads exactly its n_start_sits distances (loop closed by its contract) and writes only the hash field; for a set without start situations the "
       "vector is NULL and no arithmetic is done on the null pointer (F29); the value is checked for vectors of length 0 and 1",
  assumes=["vector size capped by DMAX elements (object size only)"])
S(id="E.set.new_start", props=["C12", "C14"], spec="earley.spec.c", harness="h_new_start", mode="L", enforce=["set_new_start/new_start_c"], functions=["set_new_start"],
  what="starting a new set resets exactly the six file-scope variables that describe the set being formed, whatever they held")
S(id="E.vlo_array.expand", props=["C17", "C12"], spec="earley.spec.c", harness="h_vlo_array_expand", mode="L", canaries=2, enforce=["vlo_array_expand/vlo_array_expand_c"],
  replace=["yaep_malloc/alloc_site_c", "_VLO_expand_memory/vlo_grow_site_c"], functions=["vlo_array_expand"], params={"quick": {"VCAP": 3}, "thorough": {"VCAP": 6}}, mem=32, timeout=1500,
  bound="the array of vlos holds <= 3 (thorough 6) elements; the function has no loop",
  what="C17 at the place where F33 was: at EVERY memory request made while the array of vlos grows, the array consists of initialised elements only (precondition of both allocation "
       "contracts: a failing request leaves through yaep_parse's error exit, whose clean-up deletes every element); afterwards the array has one more initialised element iff it was "
       "used up, the element handed out is an empty vlo, the others are untouched",
  assumes=["A5: _VLO_expand_memory keeps the content and returns a large enough block (assumed contract, as elsewhere)", "array size capped by VCAP elements (object size only)"])
S(id="E.csv.new", props=["C12"], spec="earley.spec.c", harness="h_csv_new", mode="L", disabled=True,   # first run: 7 min and harness-level failures (see DESIGN 9.7); not registered
   enforce=["core_symb_vect_new/csv_new_c"],
  replace=["_OS_expand_memory/os_expand_csv_c", "core_symb_vect_addr_get/csv_addr_get_c", "vlo_array_expand/vlo_array_expand_moves_c", "_VLO_expand_memory/vlo_grow_site_c"], functions=["core_symb_vect_new"], mem=32, timeout=1500,
  what="the (set core, symbol) record is filled in, takes the next two vlos of the array of vlos, and no element of that array is used through a pointer taken before a call that may move the array "
       "(vlo_array_expand's use-contract frees the old block); the reduce vector is the block of the element it names",
  assumes=["use-contract of vlo_array_expand: the array always moves (a correct caller must allow for it; realloc may move)", "A5 (_VLO_expand_memory) is not reached: the harness leaves room for one pointer in new_core_symb_vect_vlo"])
S(id="T.rule.add", props=["C12", "C10"], spec="symtab.spec.c", harness="h_rule_add", mode="L", canaries=2, enforce=["rule_new_symb_add/rule_add_c"],
  replace=["_OS_expand_memory/os_expand_keep_c"], functions=["rule_new_symb_add"], params={"quick": {"CAP": 8, "RCAP": 3}, "thorough": {"CAP": 8, "RCAP": 3}}, mem=32, timeout=1500, tier="thorough",
  bound="the open array holds <= 3 symbols before the call; the function has no loop (thorough tier only: 5 minutes)",
  what="the open right-hand side array on top of the rule storage grows by one: the symbol replaces the end marker and a new end marker follows; everything that was in the array "
       "stays, byte for byte (ghost byte), also when the array moves to a new segment; rhs points at it; rhs_len and n_rhs_lens go up by one; all writes stay inside the storage",
  assumes=["the segment contract is the one proved by OS.expand, restated with a ghost byte of the top object"])
S(id="T.rule.stop", props=["C12", "C10"], spec="symtab.spec.c", harness="h_rule_stop", mode="U", loops=True, n_loops=1, canaries=2, enforce=["rule_new_stop/rule_stop_c"],
  replace=["_OS_expand_memory/os_expand_use_c"], functions=["rule_new_stop"], params={"quick": {"CAP": 8, "RCAP": 3}, "thorough": {"CAP": 32, "RCAP": 6}}, mem=32, timeout=1500,
  what="the right-hand side array is finished where it is (not moved, not changed: ghost byte); the order array is a new object of rhs_len entries, all -1 (an empty object for an empty "
       "right-hand side), not overlapping the array; the top object of the rule storage is empty again",
  assumes=["the segment contract is the one proved by OS.expand, restated for an empty top object", "array size capped by RCAP symbols (object size only; the loop is closed by its contract)"])
S(id="T.copy.rule", props=["C13", "C12"], spec="symtab.spec.c", harness="h_rule_start", mode="L", canaries=2, enforce=["rule_new_start/rule_start_c"],
  replace=["_OS_add_string_function/os_add_string_use_c", "_OS_expand_memory/os_expand_use_c"], functions=["rule_new_start"], params={"quick": {"CAP": 8}, "thorough": {"CAP": 8}}, mem=48, timeout=1500, tier="thorough",
  what="the rule record is linked into the rule list and its left-hand side's list; the abstract node name is a COPY inside the grammar's rule storage (different object, equal bytes), "
       "its cost is stored (0 without abstract node); the right-hand side starts as an open array holding the NULL end marker")

# (sets registered after the DEMOS table above get their demonstrations here)
for _s in SETS:
    if _s["id"] in DEMOS and "demos" not in _s:
        _s["demos"] = DEMOS[_s["id"]]
