/* Common prelude of every spec file.  Included BEFORE the staged real source.
   DFCC mode (-DVERIF_DFCC): rule R2 call sites become the non-variadic
   verif_error_exit(code) (DFCC cannot instrument variadic calls that pass
   variable arguments) and fprintf is swallowed; what is dropped is exactly the
   evaluation of the format arguments.  Faithful mode: VERIF_ERROR is yaep_error. */
#ifndef VERIF_PRELUDE_H
#define VERIF_PRELUDE_H
#include <stdio.h>
#include <stdlib.h>
#include <string.h>
#include <stddef.h>
#include <limits.h>
#ifdef VERIF_DFCC
#define VERIF_ERROR(code, ...) verif_error_exit (code)
void verif_error_exit (int code);
static int verif_sink (void) { return 0; }
#define fprintf(...) verif_sink ()
#else
#define VERIF_ERROR yaep_error
#endif
/* ghost globals are zero-initialised by CBMC's start-up code; harnesses make them arbitrary */
#define HAVOC(x) do { __typeof__ (x) _nd; (x) = _nd; } while (0)
#define VACUITY_CANARY() __CPROVER_assert (0, "VACUITY-CANARY reachable")
#define VACUITY_CANARY_N(tag) __CPROVER_assert (0, "VACUITY-CANARY reachable " tag)
#endif
