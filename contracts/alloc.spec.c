/* A.wrap (C17): the allocation wrappers of allocate.c report a failed request through the installed error
   function, once, with the installed user pointer; a NULL allocator is tolerated. */
#include "prelude.h"
#include "allocate.h"
int gh_err_calls; void *gh_err_arg;     /* calls of the error function and its argument */
size_t gh_req;                          /* size requested from the underlying allocator */
#include "allocate.c"
#ifndef CAP
#define CAP 4096
#endif

void *malloc_fn_c (size_t n)
__CPROVER_assigns (gh_req)
__CPROVER_ensures (gh_req == n)
__CPROVER_ensures (__CPROVER_return_value == NULL || __CPROVER_is_fresh (__CPROVER_return_value, n))
{ void *r; gh_req = n; return r; }
void *calloc_fn_c (size_t a, size_t b)
__CPROVER_requires (a <= CAP && b <= CAP)
__CPROVER_assigns (gh_req)
__CPROVER_ensures (gh_req == a * b)
__CPROVER_ensures (__CPROVER_return_value == NULL || __CPROVER_is_fresh (__CPROVER_return_value, a * b))
{ void *r; gh_req = a * b; return r; }
void *realloc_fn_c (void *p, size_t n)
__CPROVER_assigns (gh_req)
__CPROVER_ensures (gh_req == n)
__CPROVER_ensures (__CPROVER_return_value == NULL || __CPROVER_is_fresh (__CPROVER_return_value, n))
{ void *r; gh_req = n; return r; }
int gh_free_calls; void *gh_freed;      /* calls of the underlying free and its argument */
void free_fn_c (void *p)
__CPROVER_requires (gh_free_calls == 0)
__CPROVER_assigns (gh_free_calls, gh_freed)
__CPROVER_ensures (gh_free_calls == 1 && gh_freed == p)
{ gh_free_calls = 1; gh_freed = p; }
void err_fn_c (void *userptr)
__CPROVER_requires (gh_err_calls == 0)                      /* reported at most once per request */
__CPROVER_assigns (gh_err_calls, gh_err_arg)
__CPROVER_ensures (gh_err_calls == 1 && gh_err_arg == userptr)
{ gh_err_calls = 1; gh_err_arg = userptr; }
Yaep_malloc keep1 = malloc_fn_c; Yaep_calloc keep2 = calloc_fn_c; Yaep_realloc keep3 = realloc_fn_c; Yaep_free keep4 = free_fn_c; Yaep_alloc_error keep5 = err_fn_c;

#define ALLOCATOR_OK(a) (__CPROVER_is_fresh (a, sizeof (*(a))) \
  && __CPROVER_obeys_contract ((a)->malloc, malloc_fn_c) && __CPROVER_obeys_contract ((a)->realloc, realloc_fn_c) \
  && __CPROVER_obeys_contract ((a)->free, free_fn_c) && __CPROVER_obeys_contract ((a)->alloc_error, err_fn_c))

void *ymalloc_c (struct YaepAllocator *a, size_t size)
__CPROVER_requires (a == NULL || ALLOCATOR_OK (a))
__CPROVER_requires (gh_err_calls == 0)
__CPROVER_assigns (gh_err_calls, gh_err_arg, gh_req)
__CPROVER_ensures (a == NULL ==> (__CPROVER_return_value == NULL && gh_err_calls == 0))
__CPROVER_ensures (a != NULL ==> gh_req == size)
/* a failed non-empty request is reported exactly once with the installed user pointer; a served one is not reported */
__CPROVER_ensures (a != NULL ==> ((__CPROVER_return_value == NULL && size != 0) ? (gh_err_calls == 1 && gh_err_arg == a->userptr) : gh_err_calls == 0))
;
void *yrealloc_c (struct YaepAllocator *a, void *p, size_t size)
__CPROVER_requires (a == NULL || ALLOCATOR_OK (a))
__CPROVER_requires (gh_err_calls == 0)
__CPROVER_assigns (gh_err_calls, gh_err_arg, gh_req)
__CPROVER_ensures (a == NULL ==> (__CPROVER_return_value == NULL && gh_err_calls == 0))
__CPROVER_ensures (a != NULL ==> gh_req == size)
__CPROVER_ensures (a != NULL ==> ((__CPROVER_return_value == NULL && size != 0) ? (gh_err_calls == 1 && gh_err_arg == a->userptr) : gh_err_calls == 0))
;
void *ycalloc_c (struct YaepAllocator *a, size_t nmemb, size_t size)
__CPROVER_requires (a == NULL || (ALLOCATOR_OK (a) && (a->calloc == NULL || __CPROVER_obeys_contract (a->calloc, calloc_fn_c))))
__CPROVER_requires (gh_err_calls == 0 && nmemb <= CAP && size <= CAP)
__CPROVER_assigns (gh_err_calls, gh_err_arg, gh_req)
__CPROVER_ensures (a == NULL ==> (__CPROVER_return_value == NULL && gh_err_calls == 0))
__CPROVER_ensures (a != NULL ==> ((__CPROVER_return_value == NULL && nmemb != 0 && size != 0) ? (gh_err_calls == 1 && gh_err_arg == a->userptr) : gh_err_calls == 0))
;
void yfree_c (struct YaepAllocator *a, void *p)
__CPROVER_requires (a == NULL || ALLOCATOR_OK (a))
__CPROVER_requires (gh_free_calls == 0)
__CPROVER_assigns (gh_free_calls, gh_freed)
__CPROVER_ensures (a != NULL ? (gh_free_calls == 1 && gh_freed == p) : gh_free_calls == 0)      /* passed on exactly once; the request functions above never free (frame) */
;
void seterr_c (YaepAllocator *a, Yaep_alloc_error f, void *userptr)
__CPROVER_requires (a == NULL || __CPROVER_is_fresh (a, sizeof (*a)))
__CPROVER_assigns (a != NULL: a->alloc_error, a->userptr)
__CPROVER_ensures (a != NULL ==> (a->userptr == userptr && a->alloc_error == (f != NULL ? f : yaep_alloc_defaulterrfunc)))
;
void *getuserptr_c (YaepAllocator *a)
__CPROVER_requires (a == NULL || __CPROVER_is_fresh (a, sizeof (*a)))
__CPROVER_assigns ()
__CPROVER_ensures (__CPROVER_return_value == (a != NULL ? a->userptr : NULL))
;
Yaep_alloc_error geterrfunc_c (YaepAllocator *a)
__CPROVER_requires (a == NULL || __CPROVER_is_fresh (a, sizeof (*a)))
__CPROVER_assigns ()
__CPROVER_ensures (__CPROVER_return_value == (a != NULL ? a->alloc_error : NULL))
;

#define GH() do { HAVOC (gh_err_calls); HAVOC (gh_err_arg); HAVOC (gh_req); HAVOC (gh_free_calls); HAVOC (gh_freed); } while (0)
void h_ymalloc (void) { struct YaepAllocator *a; size_t n; void *r; GH (); r = yaep_malloc (a, n);
  if (r == NULL) VACUITY_CANARY_N ("failed or NULL allocator"); else VACUITY_CANARY_N ("served"); }
void h_yrealloc (void) { struct YaepAllocator *a; size_t n; void *p, *r; GH (); r = yaep_realloc (a, p, n);
  if (r == NULL) VACUITY_CANARY_N ("failed or NULL allocator"); else VACUITY_CANARY_N ("served"); }
void h_ycalloc (void) { struct YaepAllocator *a; size_t n, m; void *r; GH (); r = yaep_calloc (a, n, m);
  if (r == NULL) VACUITY_CANARY_N ("failed or NULL allocator"); else VACUITY_CANARY_N ("served"); }
void h_yfree (void) { struct YaepAllocator *a; void *p; GH (); yaep_free (a, p); VACUITY_CANARY (); }
void h_seterr (void) { YaepAllocator *a; Yaep_alloc_error f; void *u; GH (); yaep_alloc_seterr (a, f, u); VACUITY_CANARY (); }
void h_getuserptr (void) { YaepAllocator *a; GH (); yaep_alloc_getuserptr (a); VACUITY_CANARY (); }
void h_geterrfunc (void) { YaepAllocator *a; GH (); yaep_alloc_geterrfunc (a); VACUITY_CANARY (); }
