/* TOK.* (C15 token validation, C12 UB.vec): symb_find_by_code, symb_finish_adding_terms, tok_add, read_toks. */
#include "prelude.h"
#include "yaep_ghost.h"
struct grammar; struct symb;
struct grammar *gh_g;
int gh_err_code;
int gh_code;               /* argument of the lookup */
struct symb *gh_found;     /* what the lookup contract returned */
size_t gh_len;             /* VLO length before the call */
int gh_toks_len0;
#include "yaep.c"
#include "alloc_model.h"
#ifndef NT
#define NT 3               /* TOK.vec bound: number of terminals */
#endif
#ifndef SPAN
#define SPAN 12            /* TOK.vec bound: largest code - smallest code */
#endif

#ifdef VERIF_DFCC
void verif_error_exit (int code) { __CPROVER_assume (0); }
#endif
/* exit assertion of the token layer: only an undeclared NON-NEGATIVE..., precisely: the code just looked up was not found */
void err_tok_c (int code)
__CPROVER_requires (code == YAEP_INVALID_TOKEN_CODE)
__CPROVER_requires (gh_found == NULL)                       /* rejected only when the lookup found no terminal */
__CPROVER_requires (grammar == gh_g)
__CPROVER_assigns (gh_err_code)
__CPROVER_ensures (0)
;

/* ---------- TOK.find: symb_find_by_code against VEC_INV ---------- */
/* VEC_INV for the slot the lookup reads (the harness ties the ghost index to code - start; the invariant for all
   slots is TOK.vec's postcondition, so instantiating it at this one is sound) */
hash_table_entry_t *find_code_c (hash_table_t htab, hash_table_entry_t element, int reserve)
__CPROVER_requires (reserve == 0)
__CPROVER_assigns ()
__CPROVER_ensures (__CPROVER_is_fresh (__CPROVER_return_value, sizeof (hash_table_entry_t)))
/* TABLE_INV (assumed here; HT.abs + symb_code_eq): a hit is a terminal with the code that was looked up */
__CPROVER_ensures (*__CPROVER_return_value == NULL
                   || (__CPROVER_is_fresh (*__CPROVER_return_value, sizeof (struct symb))
                       && ((struct symb *) *__CPROVER_return_value)->term_p
                       && ((struct symb *) *__CPROVER_return_value)->u.term.code == ((struct symb *) element)->u.term.code))
;
struct symb *find_by_code_c (int code)
__CPROVER_requires (symbs_ptr != NULL)                      /* harness supplies *symbs_ptr, the vector and the slot content */
__CPROVER_assigns ()
__CPROVER_ensures (__CPROVER_return_value == NULL || (__CPROVER_return_value->term_p && __CPROVER_return_value->u.term.code == code))
__CPROVER_ensures (symbs_ptr->symb_code_trans_vect != NULL && (code < symbs_ptr->symb_code_trans_vect_start || code >= symbs_ptr->symb_code_trans_vect_end)
                   ==> __CPROVER_return_value == NULL)
;

/* ---------- TOK.add ---------- */
struct symb *find_by_code_use_c (int code)
__CPROVER_assigns (gh_found, gh_code)
__CPROVER_ensures (__CPROVER_return_value == NULL || __CPROVER_is_fresh (__CPROVER_return_value, sizeof (struct symb)))
__CPROVER_ensures (__CPROVER_return_value == NULL || (__CPROVER_return_value->term_p && __CPROVER_return_value->u.term.code == code))
__CPROVER_ensures (gh_code == code && gh_found == __CPROVER_return_value)     /* after is_fresh has fixed the pointer */
;
size_t gh_newcap;
void vlo_expand_use_c (vlo_t *vlo, size_t additional_length)
__CPROVER_requires (vlo == &toks_vlo && gh_len == (size_t) (vlo->vlo_free - vlo->vlo_start))
__CPROVER_assigns (vlo->vlo_start, vlo->vlo_free, vlo->vlo_boundary, gh_newcap)
__CPROVER_ensures (gh_newcap >= gh_len + additional_length && gh_newcap <= gh_len + additional_length + 4096)
__CPROVER_ensures (__CPROVER_is_fresh (vlo->vlo_start, gh_newcap))
__CPROVER_ensures (__CPROVER_pointer_in_range_dfcc (vlo->vlo_start + gh_len, vlo->vlo_free, vlo->vlo_start + gh_len))
__CPROVER_ensures (__CPROVER_pointer_in_range_dfcc (vlo->vlo_start + gh_newcap, vlo->vlo_boundary, vlo->vlo_start + gh_newcap))
;
void tok_add_c (int code, void *attr)
__CPROVER_requires (grammar == gh_g && toks_len == gh_toks_len0 && toks_len >= 0 && toks_len < 64)
/* toks_vlo: harness-built, holds exactly toks_len tokens */
__CPROVER_requires (gh_len == (size_t) toks_len * sizeof (struct tok))
__CPROVER_assigns (toks, toks_len, toks_vlo.vlo_start, toks_vlo.vlo_free, toks_vlo.vlo_boundary, gh_newcap, gh_found, gh_code, gh_err_code,
                   __CPROVER_object_from (toks_vlo.vlo_free))
/* normal return: the token was appended with the terminal that has exactly this code, and its attribute */
__CPROVER_ensures (toks_len == gh_toks_len0 + 1 && toks == (struct tok *) toks_vlo.vlo_start)
__CPROVER_ensures ((size_t) (toks_vlo.vlo_free - toks_vlo.vlo_start) == (size_t) toks_len * sizeof (struct tok))
__CPROVER_ensures (toks[gh_toks_len0].attr == attr)
__CPROVER_ensures (toks[gh_toks_len0].symb == gh_found)
__CPROVER_ensures (gh_found != NULL)
/* (dereference the stored pointer, not the ghost: a ghost pointer tied by an equality assumption has no points-to set in CBMC) */
__CPROVER_ensures (toks[gh_toks_len0].symb->term_p != 0 && toks[gh_toks_len0].symb->u.term.code == code)
;

/* ---------- TOK.read ---------- */
int read_token_c (void **attr)
__CPROVER_requires (gh_rt_neg == 0)                          /* never called again after it has ended the input */
__CPROVER_assigns (*attr, gh_rt_calls, gh_rt_neg, gh_last_code)
__CPROVER_ensures (gh_last_code == __CPROVER_return_value && gh_rt_neg == (__CPROVER_return_value < 0))
{ int r; void *a; *attr = a; gh_last_code = r; gh_rt_neg = r < 0; return r; }
int (*keep_rt) (void **) = read_token_c;
void tok_add_use_c (int code, void *attr)
__CPROVER_requires (code >= 0 ? (gh_rt_neg == 0 && code == gh_last_code) : (code == END_MARKER_CODE && attr == NULL && gh_rt_neg == 1))
__CPROVER_assigns (gh_adds, gh_last_added, gh_last_attr)
__CPROVER_ensures (gh_adds == 1 && gh_last_added == code && gh_last_attr == attr)
;
void read_toks_c (void)
__CPROVER_requires (__CPROVER_obeys_contract (read_token, read_token_c))
__CPROVER_requires (gh_rt_neg == 0 && gh_adds == 0)
__CPROVER_assigns (gh_adds, gh_last_added, gh_last_attr, gh_rt_calls, gh_rt_neg, gh_last_code)
/* reading stops at the first negative code; the end marker with NULL attribute is appended last */
__CPROVER_ensures (gh_rt_neg == 1 && gh_last_added == END_MARKER_CODE && gh_last_attr == NULL && gh_adds == 1)
;

/* ---------- harnesses ---------- */
#define GH() do { HAVOC (gh_g); HAVOC (gh_err_code); HAVOC (gh_code); HAVOC (gh_found); HAVOC (gh_len); HAVOC (gh_toks_len0); HAVOC (gh_vk); \
  HAVOC (gh_rt_calls); HAVOC (gh_rt_neg); HAVOC (gh_last_code); HAVOC (gh_newcap); HAVOC (gh_adds); HAVOC (gh_last_added); HAVOC (gh_last_attr); } while (0)

void h_find_by_code (void)
{
  int code; struct symbs *S = malloc (sizeof (struct symbs)); _Bool use_vec; struct symb *r;
  GH (); __CPROVER_assume (S != NULL);
  HAVOC (*S); symbs_ptr = S;
  if (use_vec)
    {
      int start = S->symb_code_trans_vect_start, end = S->symb_code_trans_vect_end; size_t n, k;
      __CPROVER_assume (start < end && (long) end - (long) start <= 10000);
      n = (size_t) ((long) end - (long) start);
      S->symb_code_trans_vect = malloc (n * sizeof (struct symb *)); __CPROVER_assume (S->symb_code_trans_vect != NULL);
      /* VEC_INV at the slot the lookup will read */
      if (code >= start && code < end)
        {
          _Bool hole; k = (size_t) ((long) code - (long) start);
          if (hole) S->symb_code_trans_vect[k] = NULL;
          else { struct symb *t = malloc (sizeof (struct symb)); __CPROVER_assume (t != NULL); t->term_p = 1; t->u.term.code = start + (int) k; S->symb_code_trans_vect[k] = t; }
        }
    }
  else S->symb_code_trans_vect = NULL;
  r = symb_find_by_code (code);
  if (r == NULL) VACUITY_CANARY_N ("not a terminal code"); else VACUITY_CANARY_N ("terminal found");
}

static void tok_world (void)
{
  int n; GH (); HAVOC (grammar); gh_g = grammar;
  HAVOC (toks); HAVOC (toks_len); n = toks_len; __CPROVER_assume (n >= 0 && n < 64);
  { size_t cap; __CPROVER_assume (cap >= (size_t) n * sizeof (struct tok) && cap >= 1 && cap <= 64 * sizeof (struct tok));
    toks_vlo.vlo_start = malloc (cap); __CPROVER_assume (toks_vlo.vlo_start != NULL);
    toks_vlo.vlo_free = toks_vlo.vlo_start + (size_t) n * sizeof (struct tok); toks_vlo.vlo_boundary = toks_vlo.vlo_start + cap; HAVOC (toks_vlo.vlo_alloc); }
  gh_toks_len0 = n; gh_len = (size_t) n * sizeof (struct tok);
}
void h_tok_add (void) { int code; void *attr; tok_world (); tok_add (code, attr); VACUITY_CANARY (); }
void h_read_toks (void) { GH (); HAVOC (read_token); read_toks (); VACUITY_CANARY (); }

/* ---------- TOK.vec: bounded harness over <= NT terminals; the NULL-fill loop is closed by its loop contract ---------- */
#if 1
void h_finish_terms (void)
{
  struct grammar G; struct symbs S; struct symb T[NT]; struct symb *P[NT]; int codes[NT]; int n, i, j; size_t k;
  HAVOC (G); HAVOC (S); grammar = &G; symbs_ptr = &S; __CPROVER_assume (G.alloc != NULL);
  __CPROVER_assume (n >= 1 && n <= NT);
  /* codes first (plain ints), then the symbol records: call-site facts of yaep_read_grammar: codes are distinct (checked at intake),
     user codes are non-negative, `$eof' is -1, and the `error' terminal (-2) is always present */
  for (i = 0; i < NT; i++) __CPROVER_assume (codes[i] >= TERM_ERROR_CODE);
  for (i = 0; i < n; i++) for (j = 0; j < i; j++) __CPROVER_assume (codes[i] != codes[j]);
  HAVOC (j); __CPROVER_assume (j >= 0 && j < n && codes[j] == TERM_ERROR_CODE);
  /* bound of this stand-in: either every code is within SPAN of the smallest (dense vector of <= SPAN + 1 slots), or some code is
     so large that no vector is built (the span arithmetic must then not overflow for codes up to INT_MAX) */
  { _Bool dense; if (dense) { for (i = 0; i < n; i++) __CPROVER_assume (codes[i] <= TERM_ERROR_CODE + SPAN); }
    else { HAVOC (i); __CPROVER_assume (i >= 0 && i < n && codes[i] >= SYMB_CODE_TRANS_VECT_SIZE + TERM_ERROR_CODE); } }
  for (i = 0; i < NT; i++) { T[i].term_p = 1; T[i].u.term.term_num = i; T[i].u.term.code = codes[i]; P[i] = &T[i]; }
  S.terms_vlo.vlo_start = (char *) P; S.terms_vlo.vlo_free = (char *) (P + n); S.terms_vlo.vlo_boundary = (char *) (P + NT);
  S.symb_code_trans_vect = NULL;
  HAVOC (gh_vk);           /* the arbitrary slot the loop contract of the NULL-fill loop speaks about */
  symb_finish_adding_terms ();
  if (S.symb_code_trans_vect != NULL)
    {
      long span = (long) S.symb_code_trans_vect_end - (long) S.symb_code_trans_vect_start;
      VACUITY_CANARY_N ("dense vector built");
      __CPROVER_assert (span >= 1 && span <= SYMB_CODE_TRANS_VECT_SIZE, "vector span is positive and below the documented limit");
      k = gh_vk; __CPROVER_assume (k < (size_t) span);
      /* VEC_INV: every slot is NULL or the terminal with exactly that code */
      __CPROVER_assert (S.symb_code_trans_vect[k] == NULL
                        || (S.symb_code_trans_vect[k]->term_p && (long) S.symb_code_trans_vect[k]->u.term.code == (long) S.symb_code_trans_vect_start + (long) k),
                        "VEC_INV: slot is NULL or the terminal with exactly that code");
      /* every declared terminal is found at its code */
      HAVOC (i); __CPROVER_assume (i >= 0 && i < n);
      __CPROVER_assert (T[i].u.term.code >= S.symb_code_trans_vect_start && T[i].u.term.code < S.symb_code_trans_vect_end
                        && S.symb_code_trans_vect[T[i].u.term.code - S.symb_code_trans_vect_start] == &T[i], "declared terminal is found at its code");
    }
  else
    VACUITY_CANARY_N ("sparse codes: hash table used");
}
#endif
