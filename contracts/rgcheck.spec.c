/* RG.check (C10 verdicts, given the flags): check_grammar under contract.  The flag computations (set_empty_access_derives, set_loop_p),
   the nonterminal table (nonterm_get) and create_first_follow_sets are replaced by contracts that publish order and answers in ghost
   variables; the nonterminal records are real, with ARBITRARY flag values.  Proved: the flags are computed (both passes, in order)
   before anything is tested; every error exit names a nonterminal that really has the defect it reports (strict: does not derive a
   terminal string / not reachable; non-strict: the START symbol of the user grammar does not derive; both: can derive only itself);
   normal end means no nonterminal has a defect the mode checks (ghost index over the table), and only then the FIRST/FOLLOW sets are made.
   Both loops are closed by loop contracts; the number of nonterminals is only bounded by the size of the harness array (NTMAX records). */
#include "prelude.h"
#include "yaep_ghost.h"
#include "yaep.c"
#ifdef VERIF_DFCC
void verif_error_exit (int code) { __CPROVER_assume (0); }
#endif
#ifndef NTMAX
#define NTMAX 64
#endif
int gh_flags1, gh_flags2, gh_ff;            /* set_empty_access_derives / set_loop_p / create_first_follow_sets have run */
int gh_strict;
void err_check_c (int code)
__CPROVER_requires (gh_flags1 == 1 && gh_flags2 == 1 && gh_ff == 0)
__CPROVER_requires (code == YAEP_NONTERM_DERIVATION || code == YAEP_UNACCESSIBLE_NONTERM || code == YAEP_LOOP_NONTERM)
/* the nonterminal the table answered last (strict) or the start symbol (non-strict) does not derive */
__CPROVER_requires (code == YAEP_NONTERM_DERIVATION ==> (gh_strict ? (gh_ng_hit && !gh_ng_der) : !gh_start->derivation_p))
__CPROVER_requires (code == YAEP_UNACCESSIBLE_NONTERM ==> (gh_strict && gh_ng_hit && gh_ng_der && !gh_ng_acc))
__CPROVER_requires (code == YAEP_LOOP_NONTERM ==> (gh_ng_hit && gh_ng_loop))
__CPROVER_assigns (gh_err_code)
__CPROVER_ensures (0)
;
void flags1_c (void) __CPROVER_requires (gh_flags1 == 0 && gh_flags2 == 0 && gh_ff == 0) __CPROVER_assigns (gh_flags1) __CPROVER_ensures (gh_flags1 == 1);
void flags2_c (void) __CPROVER_requires (gh_flags1 == 1 && gh_flags2 == 0 && gh_ff == 0) __CPROVER_assigns (gh_flags2) __CPROVER_ensures (gh_flags2 == 1);
/* FIRST / FOLLOW are computed only for a grammar that passed every test of its mode: the ghost nonterminal is fine */
void first_follow_c (void)
__CPROVER_requires (gh_flags1 == 1 && gh_flags2 == 1 && gh_ff == 0)
__CPROVER_assigns (gh_ff)
__CPROVER_ensures (gh_ff == 1)
;
/* the nonterminal table: record N of the harness array, or NULL from gh_nnt on; what it answered is published by value */
struct symb *nonterm_get_c (int n)
__CPROVER_requires (n >= 0 && gh_flags1 == 1 && gh_flags2 == 1)
__CPROVER_assigns (gh_ng_hit, gh_ng_der, gh_ng_acc, gh_ng_loop)
__CPROVER_ensures (n >= gh_nnt ? __CPROVER_return_value == NULL : __CPROVER_pointer_in_range_dfcc (gh_nts + n, __CPROVER_return_value, gh_nts + n))
__CPROVER_ensures (gh_ng_hit == (n < gh_nnt))
__CPROVER_ensures (n >= gh_nnt || (gh_ng_der == (__CPROVER_return_value->derivation_p != 0) && gh_ng_acc == (__CPROVER_return_value->access_p != 0) && gh_ng_loop == (__CPROVER_return_value->u.nonterm.loop_p != 0)))
;
void check_c (int strict_p)
__CPROVER_requires (gh_flags1 == 0 && gh_flags2 == 0 && gh_ff == 0 && gh_strict == (strict_p != 0) && gh_nnt >= 1 && gh_nnt <= NTMAX && gh_ni >= 0 && gh_ni < gh_nnt)
__CPROVER_requires (rules_ptr != NULL && rules_ptr->first_rule != NULL && rules_ptr->first_rule->rhs != NULL && rules_ptr->first_rule->rhs[0] == gh_start)
__CPROVER_assigns (gh_flags1, gh_flags2, gh_ff, gh_ng_hit, gh_ng_der, gh_ng_acc, gh_ng_loop, gh_err_code)
__CPROVER_ensures (gh_flags1 == 1 && gh_flags2 == 1 && gh_ff == 1)
/* normal end: no nonterminal (ghost index over the whole table) has a defect the mode looks for */
__CPROVER_ensures (gh_nts[gh_ni].u.nonterm.loop_p == 0)
__CPROVER_ensures (strict_p ? (gh_nts[gh_ni].derivation_p != 0 && gh_nts[gh_ni].access_p != 0) : gh_start->derivation_p != 0)
;
void h_check (void)
{
  int strict; struct rule *r0; struct symb **rhs0; _Bool start_in_table;
  HAVOC (gh_flags1); HAVOC (gh_flags2); HAVOC (gh_ff); HAVOC (gh_strict); HAVOC (gh_ng_hit); HAVOC (gh_ng_der); HAVOC (gh_ng_acc); HAVOC (gh_ng_loop); HAVOC (gh_nnt); HAVOC (gh_ni); HAVOC (gh_err_code);
  __CPROVER_assume (gh_nnt >= 1 && gh_nnt <= NTMAX);
  gh_nts = malloc ((size_t) gh_nnt * sizeof (struct symb)); __CPROVER_assume (gh_nts != NULL);          /* records with arbitrary flags */
  rules_ptr = malloc (sizeof (struct rules)); r0 = malloc (sizeof (struct rule)); rhs0 = malloc (3 * sizeof (struct symb *)); __CPROVER_assume (rules_ptr != NULL && r0 != NULL && rhs0 != NULL);
  rules_ptr->first_rule = r0; r0->rhs = rhs0;
  /* the start symbol is one of the nonterminals of the table */
  { int k; __CPROVER_assume (k >= 0 && k < gh_nnt); gh_start = gh_nts + k; } rhs0[0] = gh_start;
  gh_strict = strict != 0;
  check_grammar (strict);
  if (strict) VACUITY_CANARY_N ("strict"); else VACUITY_CANARY_N ("non-strict");
}
