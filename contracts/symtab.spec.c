/* T.copy (C13 "grammar definitions are copied", C12 symbol layer): symb_add_term / symb_add_nonterm under contract.  The object-stack
   and VLO macros are expanded inline in the real functions; _OS_add_string_function, _OS_expand_memory, _VLO_expand_memory and
   find_hash_table_entry are replaced by the contracts proved in objstack.spec.c / hashtab.spec.c (the VLO one is the assumed A5). */
#include "prelude.h"
#include "yaep_ghost.h"
#include "objstack.h"
#include "vlobject.h"
size_t gh_slen;          /* length of the name */
size_t gh_j;             /* ghost index into the name */
size_t gh_newlen, gh_newcap;
const char *gh_name;
/* as in the shipped build, assertions are off in yaep.c (it defines NDEBUG before it re-includes <assert.h> through the container headers;
   here those headers are already included, so the same state is set explicitly) */
#define NDEBUG 1
#include "yaep.c"
#include "alloc_model.h"
#ifndef CAP
#define CAP 32
#endif
#define HDR (sizeof (struct _os_segment))
#define PAY (offsetof (struct _os_segment, os_segment_contest))
#define OFF(p) __CPROVER_POINTER_OFFSET (p)
#define SEGB(o) ((char *) (o)->os_current_segment)
#define TOPLEN(o) ((size_t) (OFF ((o)->os_top_object_free) - OFF ((o)->os_top_object_start)))

/* ---- callee contracts ---- */
hash_table_entry_t *gh_slot_r, *gh_slot_c;      /* the slots the name table / the code table reserved for the new symbol */
hash_table_entry_t *find_slot_c (hash_table_t htab, hash_table_entry_t element, int reserve)
__CPROVER_requires (reserve == 1 && (htab == symbs_ptr->repr_to_symb_tab || htab == symbs_ptr->code_to_symb_tab))
__CPROVER_assigns (htab == symbs_ptr->repr_to_symb_tab: gh_slot_r; htab != symbs_ptr->repr_to_symb_tab: gh_slot_c)
__CPROVER_ensures (__CPROVER_is_fresh (__CPROVER_return_value, sizeof (hash_table_entry_t)))
__CPROVER_ensures (htab != symbs_ptr->repr_to_symb_tab || __CPROVER_pointer_in_range_dfcc (__CPROVER_return_value, gh_slot_r, __CPROVER_return_value))
__CPROVER_ensures (htab == symbs_ptr->repr_to_symb_tab || __CPROVER_pointer_in_range_dfcc (__CPROVER_return_value, gh_slot_c, __CPROVER_return_value))
__CPROVER_ensures (*__CPROVER_return_value == NULL)            /* documented precondition of symb_add_*: the symbol is not in the tables */
;
/* what OS.string proves about _OS_add_string_function, restated for an EMPTY top object (the state after OS_TOP_FINISH) */
int gh_inplace;       /* (harness ghost, kept for the canaries) */
/* the string fits behind the (empty) top object of the current segment */
#define FITS(os) (OFF ((os)->os_top_object_start) + gh_slen + 1 <= OFF ((os)->os_boundary))
#define FITS_OLD(os) (OFF (__CPROVER_old ((os)->os_top_object_start)) + gh_slen + 1 <= OFF (__CPROVER_old ((os)->os_boundary)))
void os_add_string_use_c (os_t *os, const char *str)
__CPROVER_requires (str == gh_name && TOPLEN (os) == 0)
/* (segment, start and boundary are assignable only when a new segment is made: a pointer that is havoced and then tied by an equality has no points-to set) */
__CPROVER_assigns (os->os_top_object_free, gh_newlen, __CPROVER_object_from (os->os_top_object_free))      /* only the bytes behind the finished objects of the segment */
__CPROVER_assigns (!FITS (os): os->os_current_segment, os->os_top_object_start, os->os_boundary)
__CPROVER_ensures (gh_newlen >= gh_slen + 1 && gh_newlen <= 2 * CAP + OS_DEFAULT_SEGMENT_LENGTH)
/* in place when it fits (segment, start and boundary unchanged: frame), otherwise in a fresh segment */
__CPROVER_ensures (FITS_OLD (os) || __CPROVER_is_fresh (os->os_current_segment, gh_newlen + HDR))
__CPROVER_ensures (FITS_OLD (os) || (__CPROVER_pointer_in_range_dfcc (SEGB (os) + PAY, os->os_top_object_start, SEGB (os) + PAY)
                                  && __CPROVER_pointer_in_range_dfcc (SEGB (os) + PAY + gh_newlen, os->os_boundary, SEGB (os) + PAY + gh_newlen)))
__CPROVER_ensures (__CPROVER_pointer_in_range_dfcc (os->os_top_object_start + gh_slen + 1, os->os_top_object_free, os->os_top_object_start + gh_slen + 1))
__CPROVER_ensures (os->os_top_object_start[gh_j] == gh_name[gh_j])
;
void os_expand_use_c (os_t *os, size_t additional_length)
__CPROVER_requires (TOPLEN (os) == 0)                                      /* called right after OS_TOP_FINISH in these functions */
__CPROVER_assigns (os->os_current_segment, os->os_top_object_start, os->os_top_object_free, os->os_boundary, gh_newlen)
__CPROVER_ensures (gh_newlen >= additional_length && gh_newlen >= OS_DEFAULT_SEGMENT_LENGTH && gh_newlen <= 2 * CAP + OS_DEFAULT_SEGMENT_LENGTH + sizeof (struct symb))
__CPROVER_ensures (__CPROVER_is_fresh (os->os_current_segment, gh_newlen + HDR))
__CPROVER_ensures (__CPROVER_pointer_in_range_dfcc (SEGB (os) + PAY, os->os_top_object_start, SEGB (os) + PAY))
__CPROVER_ensures (__CPROVER_pointer_in_range_dfcc (SEGB (os) + PAY, os->os_top_object_free, SEGB (os) + PAY))
__CPROVER_ensures (__CPROVER_pointer_in_range_dfcc (SEGB (os) + PAY + gh_newlen, os->os_boundary, SEGB (os) + PAY + gh_newlen))
;
void vlo_expand_use_c (vlo_t *vlo, size_t additional_length)
__CPROVER_assigns (vlo->vlo_start, vlo->vlo_free, vlo->vlo_boundary, gh_newcap)
__CPROVER_ensures (gh_newcap >= (size_t) (OFF (__CPROVER_old (vlo->vlo_free)) - OFF (__CPROVER_old (vlo->vlo_start))) + additional_length && gh_newcap <= 4 * CAP * sizeof (void *) + 64)
__CPROVER_ensures (__CPROVER_is_fresh (vlo->vlo_start, gh_newcap))
__CPROVER_ensures (__CPROVER_pointer_in_range_dfcc (vlo->vlo_start + (OFF (__CPROVER_old (vlo->vlo_free)) - OFF (__CPROVER_old (vlo->vlo_start))), vlo->vlo_free,
                                                    vlo->vlo_start + (OFF (__CPROVER_old (vlo->vlo_free)) - OFF (__CPROVER_old (vlo->vlo_start)))))
__CPROVER_ensures (__CPROVER_pointer_in_range_dfcc (vlo->vlo_start + gh_newcap, vlo->vlo_boundary, vlo->vlo_start + gh_newcap))
;

/* ---- symb_add_term ---- */
struct symb *add_term_c (const char *name, int code)
__CPROVER_requires (symbs_ptr != NULL && name == gh_name && gh_slen < CAP && gh_j <= gh_slen)          /* the harness supplies *symbs_ptr, its containers and the name */
__CPROVER_requires (symbs_ptr->n_terms >= 0 && symbs_ptr->n_nonterms >= 0 && symbs_ptr->n_terms < 100000 && symbs_ptr->n_nonterms < 100000)
__CPROVER_assigns (symbs_ptr->n_terms, symbs_ptr->symbs_os, symbs_ptr->symbs_vlo, symbs_ptr->terms_vlo, gh_newlen, gh_newcap, gh_slot_r, gh_slot_c,
                   __CPROVER_object_whole (symbs_ptr->symbs_os.os_top_object_free), __CPROVER_object_whole (symbs_ptr->symbs_vlo.vlo_free), __CPROVER_object_whole (symbs_ptr->terms_vlo.vlo_free))
__CPROVER_ensures (__CPROVER_return_value->term_p && __CPROVER_return_value->u.term.code == code
                   && __CPROVER_return_value->u.term.term_num == __CPROVER_old (symbs_ptr->n_terms)
                   && __CPROVER_return_value->num == __CPROVER_old (symbs_ptr->n_terms) + __CPROVER_old (symbs_ptr->n_nonterms)
                   && symbs_ptr->n_terms == __CPROVER_old (symbs_ptr->n_terms) + 1)
/* C13: the name is COPIED into the grammar's storage: the stored pointer is not the caller's, and the bytes are equal */
__CPROVER_ensures (__CPROVER_return_value->repr != name && !__CPROVER_same_object (__CPROVER_return_value->repr, name))
__CPROVER_ensures (__CPROVER_return_value->repr[gh_j] == name[gh_j])
/* the new record is the last element of both reference arrays */
__CPROVER_ensures (((struct symb **) symbs_ptr->symbs_vlo.vlo_free)[-1] == __CPROVER_return_value && ((struct symb **) symbs_ptr->terms_vlo.vlo_free)[-1] == __CPROVER_return_value)
/* and it is what the slots reserved in the name table and in the code table now hold (this is what later lookups find) */
__CPROVER_ensures (*gh_slot_r == (hash_table_entry_t) __CPROVER_return_value && *gh_slot_c == (hash_table_entry_t) __CPROVER_return_value)
;

/* ---- symb_add_nonterm ---- */
struct symb *add_nonterm_c (const char *name)
__CPROVER_requires (symbs_ptr != NULL && name == gh_name && gh_slen < CAP && gh_j <= gh_slen)
__CPROVER_requires (symbs_ptr->n_terms >= 0 && symbs_ptr->n_nonterms >= 0 && symbs_ptr->n_terms < 100000 && symbs_ptr->n_nonterms < 100000)
__CPROVER_assigns (symbs_ptr->n_nonterms, symbs_ptr->symbs_os, symbs_ptr->symbs_vlo, symbs_ptr->nonterms_vlo, gh_newlen, gh_newcap, gh_slot_r,
                   __CPROVER_object_whole (symbs_ptr->symbs_os.os_top_object_free), __CPROVER_object_whole (symbs_ptr->symbs_vlo.vlo_free), __CPROVER_object_whole (symbs_ptr->nonterms_vlo.vlo_free))
__CPROVER_ensures (!__CPROVER_return_value->term_p && __CPROVER_return_value->u.nonterm.rules == NULL && __CPROVER_return_value->u.nonterm.loop_p == 0
                   && __CPROVER_return_value->u.nonterm.nonterm_num == __CPROVER_old (symbs_ptr->n_nonterms)
                   && __CPROVER_return_value->num == __CPROVER_old (symbs_ptr->n_terms) + __CPROVER_old (symbs_ptr->n_nonterms)
                   && symbs_ptr->n_nonterms == __CPROVER_old (symbs_ptr->n_nonterms) + 1)
/* C13: the name is COPIED into the grammar's storage */
__CPROVER_ensures (__CPROVER_return_value->repr != name && !__CPROVER_same_object (__CPROVER_return_value->repr, name))
__CPROVER_ensures (__CPROVER_return_value->repr[gh_j] == name[gh_j])
__CPROVER_ensures (((struct symb **) symbs_ptr->symbs_vlo.vlo_free)[-1] == __CPROVER_return_value && ((struct symb **) symbs_ptr->nonterms_vlo.vlo_free)[-1] == __CPROVER_return_value)
__CPROVER_ensures (*gh_slot_r == (hash_table_entry_t) __CPROVER_return_value)              /* the slot reserved in the name table holds the record */
;

static void mk_os (os_t *os)
{ size_t L, so, len; __CPROVER_assume (L >= 1 && L <= CAP && so >= PAY && so % _OS_ALIGNMENT == 0 && so <= PAY + L + 7 && (so <= PAY + L ? len <= PAY + L - so : len == 0));
  os->os_current_segment = malloc (L + HDR); __CPROVER_assume (os->os_current_segment != NULL);
  os->os_top_object_start = SEGB (os) + so; os->os_top_object_free = os->os_top_object_start; (void) len;     /* the functions start from a finished (empty) top object */
  os->os_boundary = SEGB (os) + PAY + L; HAVOC (os->os_alloc); __CPROVER_assume (os->os_alloc != NULL); os->initial_segment_length = L; }
static void mk_vlo (vlo_t *v)
{ size_t cap, n; __CPROVER_assume (cap >= 8 && cap <= CAP * sizeof (void *) && n % sizeof (void *) == 0 && n <= cap);
  v->vlo_start = malloc (cap); __CPROVER_assume (v->vlo_start != NULL); v->vlo_free = v->vlo_start + n; v->vlo_boundary = v->vlo_start + cap; HAVOC (v->vlo_alloc); __CPROVER_assume (v->vlo_alloc != NULL); }
static void world (void)
{
  char *nm; HAVOC (gh_slen); HAVOC (gh_j); HAVOC (gh_newlen); HAVOC (gh_newcap); HAVOC (gh_inplace);
  __CPROVER_assume (gh_slen < CAP);
  nm = malloc (gh_slen + 1); __CPROVER_assume (nm != NULL); nm[gh_slen] = '\0'; gh_name = nm;
  symbs_ptr = malloc (sizeof (struct symbs)); __CPROVER_assume (symbs_ptr != NULL);
  mk_os (&symbs_ptr->symbs_os); mk_vlo (&symbs_ptr->symbs_vlo); mk_vlo (&symbs_ptr->terms_vlo); mk_vlo (&symbs_ptr->nonterms_vlo);
  symbs_ptr->repr_to_symb_tab = malloc (sizeof (*symbs_ptr->repr_to_symb_tab)); symbs_ptr->code_to_symb_tab = malloc (sizeof (*symbs_ptr->code_to_symb_tab));
  __CPROVER_assume (symbs_ptr->repr_to_symb_tab != NULL && symbs_ptr->code_to_symb_tab != NULL);       /* two different tables */
}
void h_add_term (void) { int code; world (); symb_add_term (gh_name, code); VACUITY_CANARY (); }
void h_add_nonterm (void) { world (); symb_add_nonterm (gh_name); VACUITY_CANARY (); }

/* ---- T.copy.rule: rule_new_start stores a COPY of the abstract node name in the grammar's rule storage ---- */
struct rule *rule_start_c (struct symb *lhs, const char *anode, int anode_cost)
__CPROVER_requires (rules_ptr != NULL && __CPROVER_is_fresh (lhs, sizeof (*lhs)) && (anode == NULL || anode == gh_name) && gh_slen < CAP && gh_j <= gh_slen)
__CPROVER_requires (rules_ptr->n_rules >= 0 && rules_ptr->n_rules < 100000 && rules_ptr->n_rhs_lens >= 0 && rules_ptr->n_rhs_lens < 100000)
__CPROVER_assigns (rules_ptr->n_rules, rules_ptr->curr_rule, rules_ptr->first_rule, rules_ptr->rules_os, lhs->u.nonterm.rules, gh_newlen,
                   __CPROVER_object_whole (rules_ptr->rules_os.os_top_object_free))
__CPROVER_assigns (rules_ptr->curr_rule != NULL: rules_ptr->curr_rule->next)
__CPROVER_ensures (__CPROVER_return_value->lhs == lhs && __CPROVER_return_value->rhs_len == 0 && __CPROVER_return_value->trans_len == 0 && __CPROVER_return_value->order == NULL
                   && __CPROVER_return_value->next == NULL && __CPROVER_return_value->num == __CPROVER_old (rules_ptr->n_rules) && rules_ptr->n_rules == __CPROVER_old (rules_ptr->n_rules) + 1)
__CPROVER_ensures (__CPROVER_return_value->lhs_next == __CPROVER_old (lhs->u.nonterm.rules) && lhs->u.nonterm.rules == __CPROVER_return_value && rules_ptr->curr_rule == __CPROVER_return_value)
/* no abstract node: none stored, cost 0; otherwise the cost and a COPY of the name (C13: the caller may free or overwrite its string) */
__CPROVER_ensures (anode == NULL ? (__CPROVER_return_value->anode == NULL && __CPROVER_return_value->anode_cost == 0)
                                 : (__CPROVER_return_value->anode != anode && !__CPROVER_same_object (__CPROVER_return_value->anode, anode) && __CPROVER_return_value->anode_cost == anode_cost))
__CPROVER_ensures (anode == NULL || __CPROVER_return_value->anode[gh_j] == anode[gh_j])
/* the right-hand side is an (open) array holding the NULL end marker */
__CPROVER_ensures (__CPROVER_return_value->rhs[0] == NULL)
;
static void world_rule (void)
{
  char *nm; HAVOC (gh_slen); HAVOC (gh_j); HAVOC (gh_newlen); HAVOC (gh_newcap); HAVOC (gh_inplace);
  __CPROVER_assume (gh_slen < CAP);
  nm = malloc (gh_slen + 1); __CPROVER_assume (nm != NULL); nm[gh_slen] = '\0'; gh_name = nm;
  rules_ptr = malloc (sizeof (struct rules)); __CPROVER_assume (rules_ptr != NULL);
  mk_os (&rules_ptr->rules_os);
  { _Bool has; if (has) { rules_ptr->curr_rule = malloc (sizeof (struct rule)); __CPROVER_assume (rules_ptr->curr_rule != NULL); } else rules_ptr->curr_rule = NULL; }
}
/* (the name is passed as the harness pointer itself: a pointer that is only tied to it by the assumed precondition has no points-to set) */
void h_rule_start (void) { struct symb *lhs; const char *an; int c; _Bool with; world_rule (); an = with ? gh_name : NULL; rule_new_start (lhs, an, c); if (an) VACUITY_CANARY_N ("with abstract node"); else VACUITY_CANARY_N ("without"); }

/* ---- T.rule.add / T.rule.stop: the open right-hand side array in the rule storage ---- */
#ifndef RCAP
#define RCAP 4
#endif
size_t gh_k; char gh_byte;          /* ghost byte of the right-hand side array as it was before the call */
size_t gh_oi;                       /* ghost index into the order array */
#define ROS (&rules_ptr->rules_os)
/* what OS.top.expand proves about _OS_expand_memory for a NON-empty top object (objstack.spec.c: os_expand_use_c): a fresh, larger segment;
   the top object starts its payload with the same length and the same bytes (ghost byte) */
void os_expand_keep_c (os_t *os, size_t additional_length)
__CPROVER_requires (gh_k < TOPLEN (os) ==> gh_byte == os->os_top_object_start[gh_k])
__CPROVER_assigns (os->os_current_segment, os->os_top_object_start, os->os_top_object_free, os->os_boundary, gh_newlen)
__CPROVER_ensures (gh_newlen >= OS_DEFAULT_SEGMENT_LENGTH && gh_newlen <= 2 * CAP + OS_DEFAULT_SEGMENT_LENGTH + RCAP * 16
                   && gh_newlen >= (size_t) (OFF (__CPROVER_old (os->os_top_object_free)) - OFF (__CPROVER_old (os->os_top_object_start))) + additional_length)
__CPROVER_ensures (__CPROVER_is_fresh (os->os_current_segment, gh_newlen + HDR))
__CPROVER_ensures (__CPROVER_pointer_in_range_dfcc (SEGB (os) + PAY, os->os_top_object_start, SEGB (os) + PAY))
__CPROVER_ensures (__CPROVER_pointer_in_range_dfcc (SEGB (os) + PAY + (OFF (__CPROVER_old (os->os_top_object_free)) - OFF (__CPROVER_old (os->os_top_object_start))), os->os_top_object_free,
                                                    SEGB (os) + PAY + (OFF (__CPROVER_old (os->os_top_object_free)) - OFF (__CPROVER_old (os->os_top_object_start)))))
__CPROVER_ensures (__CPROVER_pointer_in_range_dfcc (SEGB (os) + PAY + gh_newlen, os->os_boundary, SEGB (os) + PAY + gh_newlen))
__CPROVER_ensures (gh_k < TOPLEN (os) ==> os->os_top_object_start[gh_k] == gh_byte)
;
#define RHSLEN (rules_ptr->curr_rule->rhs_len)
/* rule_new_symb_add: the array grows by one: the symbol replaces the end marker, a new end marker follows; what was there before stays (byte by byte: ghost byte), wherever the array now lives */
void rule_add_c (struct symb *symb)
__CPROVER_requires (rules_ptr != NULL && rules_ptr->curr_rule != NULL && RHSLEN >= 0 && RHSLEN < RCAP && rules_ptr->n_rhs_lens >= 0 && rules_ptr->n_rhs_lens < 100000)
__CPROVER_requires (TOPLEN (ROS) == ((size_t) RHSLEN + 1) * sizeof (struct symb *))                    /* the top object of the rule storage is the open array: rhs_len symbols and the end marker */
__CPROVER_requires (gh_k < TOPLEN (ROS) ==> gh_byte == ROS->os_top_object_start[gh_k])
__CPROVER_assigns (rules_ptr->curr_rule->rhs, RHSLEN, rules_ptr->n_rhs_lens, rules_ptr->rules_os, gh_newlen, __CPROVER_object_from (ROS->os_top_object_free - sizeof (struct symb *)))      /* in place: from the old end marker on */
__CPROVER_ensures (RHSLEN == __CPROVER_old (RHSLEN) + 1 && rules_ptr->n_rhs_lens == __CPROVER_old (rules_ptr->n_rhs_lens) + 1)
__CPROVER_ensures ((char *) rules_ptr->curr_rule->rhs == ROS->os_top_object_start && TOPLEN (ROS) == ((size_t) RHSLEN + 1) * sizeof (struct symb *))
__CPROVER_ensures (rules_ptr->curr_rule->rhs[RHSLEN - 1] == symb && rules_ptr->curr_rule->rhs[RHSLEN] == NULL)
__CPROVER_ensures (gh_k < ((size_t) RHSLEN - 1) * sizeof (struct symb *) ==> ((char *) rules_ptr->curr_rule->rhs)[gh_k] == gh_byte)
;
/* rule_new_stop: the array is finished where it is (same bytes); the order array is a new object of rhs_len entries, all -1 (an empty object for an empty right-hand side); the top object is empty again */
void rule_stop_c (void)
__CPROVER_requires (rules_ptr != NULL && rules_ptr->curr_rule != NULL && RHSLEN >= 0 && RHSLEN <= RCAP)
__CPROVER_requires (TOPLEN (ROS) == ((size_t) RHSLEN + 1) * sizeof (struct symb *) && (char *) rules_ptr->curr_rule->rhs == ROS->os_top_object_start)
__CPROVER_requires (gh_k < TOPLEN (ROS) && gh_byte == ROS->os_top_object_start[gh_k])
__CPROVER_assigns (rules_ptr->curr_rule->order, rules_ptr->rules_os, gh_newlen, __CPROVER_object_from (ROS->os_top_object_free))
/* (for an empty right-hand side the order array is an empty object: a non-NULL pointer that is never dereferenced) */
__CPROVER_ensures (rules_ptr->curr_rule->order != NULL && OFF (rules_ptr->curr_rule->order) % sizeof (int) == 0 && (char *) rules_ptr->curr_rule->order == ROS->os_top_object_start - (RHSLEN == 0 ? 0 : (((size_t) RHSLEN * sizeof (int) + _OS_ALIGNMENT - 1) / _OS_ALIGNMENT) * _OS_ALIGNMENT))
__CPROVER_ensures ((RHSLEN > 0 && gh_oi < (size_t) RHSLEN) ==> rules_ptr->curr_rule->order[gh_oi] == -1)
__CPROVER_ensures (TOPLEN (ROS) == 0)
__CPROVER_ensures (((char *) rules_ptr->curr_rule->rhs)[gh_k] == gh_byte)                                                  /* the finished array has not moved and has not changed */
/* the order array does not overlap the right-hand side array */
__CPROVER_ensures (RHSLEN == 0 || !__CPROVER_same_object (rules_ptr->curr_rule->order, rules_ptr->curr_rule->rhs)
                   || OFF (rules_ptr->curr_rule->order) >= OFF (rules_ptr->curr_rule->rhs) + ((size_t) RHSLEN + 1) * sizeof (struct symb *))
;
static void world_rhs (void)
{
  os_t *os; size_t L, so, len; int n;
  HAVOC (gh_newlen); HAVOC (gh_k); HAVOC (gh_byte); HAVOC (gh_oi);
  rules_ptr = malloc (sizeof (struct rules)); __CPROVER_assume (rules_ptr != NULL); os = &rules_ptr->rules_os;
  rules_ptr->curr_rule = malloc (sizeof (struct rule)); __CPROVER_assume (rules_ptr->curr_rule != NULL);
  __CPROVER_assume (n >= 0 && n <= RCAP); rules_ptr->curr_rule->rhs_len = n; len = ((size_t) n + 1) * sizeof (struct symb *);
  /* a segment whose top object is the open array */
  __CPROVER_assume (L >= 1 && L <= CAP + RCAP * 16 && so >= PAY && so <= PAY + L && so % _OS_ALIGNMENT == 0 && so + len <= PAY + L);
  os->os_current_segment = malloc (L + HDR); __CPROVER_assume (os->os_current_segment != NULL);
  os->os_top_object_start = SEGB (os) + so; os->os_top_object_free = os->os_top_object_start + len; os->os_boundary = SEGB (os) + PAY + L;
  HAVOC (os->os_alloc); __CPROVER_assume (os->os_alloc != NULL); os->initial_segment_length = L;
  rules_ptr->curr_rule->rhs = (struct symb **) os->os_top_object_start; rules_ptr->curr_rule->rhs[n] = NULL; rules_ptr->curr_rule->order = NULL;
}
void h_rule_add (void) { struct symb *s; world_rhs (); __CPROVER_assume (RHSLEN < RCAP);
  if (gh_k < TOPLEN (ROS)) gh_byte = ROS->os_top_object_start[gh_k];
  rule_new_symb_add (s); if (RHSLEN == RCAP) VACUITY_CANARY_N ("longest array"); else VACUITY_CANARY_N ("shorter"); }
void h_rule_stop (void) { world_rhs (); __CPROVER_assume (gh_k < TOPLEN (ROS)); gh_byte = ROS->os_top_object_start[gh_k];
  rule_new_stop (); if (RHSLEN == 0) VACUITY_CANARY_N ("empty right-hand side"); else VACUITY_CANARY_N ("order array made"); }

/* ---- T.get: symb_get / term_get / nonterm_get: element N of the reference array, or NULL outside [0, count) - never a read outside the array ---- */
#define VLEN(v) ((size_t) (OFF ((v).vlo_free) - OFF ((v).vlo_start)))
#define GET_CONTRACT(cname, field) \
struct symb *cname (int n) \
__CPROVER_requires (symbs_ptr != NULL && VLEN (symbs_ptr->field) % sizeof (struct symb *) == 0) \
__CPROVER_assigns () \
__CPROVER_ensures ((n < 0 || (size_t) n >= VLEN (symbs_ptr->field) / sizeof (struct symb *)) ? __CPROVER_return_value == NULL \
                   : __CPROVER_return_value == ((struct symb **) symbs_ptr->field.vlo_start)[n]) \
;
GET_CONTRACT (symb_get_c, symbs_vlo)
GET_CONTRACT (term_get_c, terms_vlo)
GET_CONTRACT (nonterm_get_c, nonterms_vlo)
void h_get (void)
{ int n; struct symb *r; _Bool a, b; world (); if (a) r = symb_get (n); else if (b) r = term_get (n); else r = nonterm_get (n); if (r != NULL) VACUITY_CANARY_N ("element"); else VACUITY_CANARY_N ("outside"); }

/* ---- T.find.repr: symb_find_by_repr asks the NAME table, without reservation, with a key that carries the name; the answer is what the slot holds ---- */
hash_table_entry_t *lookup_slot_c (hash_table_t htab, hash_table_entry_t element, int reserve)
__CPROVER_requires (reserve == 0 && htab == symbs_ptr->repr_to_symb_tab && ((const struct symb *) element)->repr == gh_name)
__CPROVER_assigns (gh_slot_r)
__CPROVER_ensures (__CPROVER_is_fresh (__CPROVER_return_value, sizeof (hash_table_entry_t)))
__CPROVER_ensures (__CPROVER_pointer_in_range_dfcc (__CPROVER_return_value, gh_slot_r, __CPROVER_return_value))
;
struct symb *find_repr_real_c (const char *repr)
__CPROVER_requires (symbs_ptr != NULL && repr == gh_name)
__CPROVER_assigns (gh_slot_r)
__CPROVER_ensures (__CPROVER_return_value == (struct symb *) *gh_slot_r)
;
void h_find_repr (void) { struct symb *r; world (); r = symb_find_by_repr (gh_name); if (r != NULL) VACUITY_CANARY_N ("found"); else VACUITY_CANARY_N ("not found"); }
