/* RG.prefix (C10 terminal intake, C14 G.switch / G.fresh / G.undef): the first region of yaep_read_grammar (rule R5: from the
   current-grammar switch to the end of the terminal loop) under contract, callbacks through obeys_contract, symbol-table callees
   replaced by contracts that publish what they answered in ghost variables. */
#include "prelude.h"
#include "yaep_ghost.h"
#include "yaep.c"
#include "r5_rg_prefix.inc"
#ifdef VERIF_DFCC
void verif_error_exit (int code) { __CPROVER_assume (0); }
#endif
#define CUR(g) (grammar == (g) && symbs_ptr == grammar->symbs_ptr && term_sets_ptr == grammar->term_sets_ptr && rules_ptr == grammar->rules_ptr)

/* every error exit of the region: recorded in this object, which is (and stays) undefined and has been emptied;
   and the code names a defect that is really present (witness conditions) */
void err_rg_c (int code)
__CPROVER_requires (grammar == gh_g && grammar->undefined_p == 1 && gh_emptied == 1)
__CPROVER_requires (code == YAEP_NEGATIVE_TERM_CODE || code == YAEP_REPEATED_TERM_DECL || code == YAEP_REPEATED_TERM_CODE)
__CPROVER_requires (code == YAEP_NEGATIVE_TERM_CODE ==> gh_rt_last < 0)
__CPROVER_requires (code == YAEP_REPEATED_TERM_DECL ==> (gh_repr_hit && gh_repr_arg == gh_rt_name))
__CPROVER_requires (code == YAEP_REPEATED_TERM_CODE ==> (gh_code_hit && gh_code_arg == gh_rt_last))
__CPROVER_assigns (gh_err_code)
__CPROVER_ensures (0)
;
void empty_grammar_c (void)
__CPROVER_requires (CUR (gh_g))
__CPROVER_assigns (gh_emptied)
__CPROVER_ensures (gh_emptied == 1)
;
const char *read_terminal_c (int *code)
__CPROVER_requires (grammar == gh_g && grammar->undefined_p == 1 && gh_emptied == 1)      /* the caller's code runs on an emptied, undefined object */
__CPROVER_assigns (*code, gh_rt_last, gh_rt_name, gh_defect)
__CPROVER_ensures (gh_rt_name == __CPROVER_return_value && (__CPROVER_return_value == NULL || gh_rt_last == *code))
__CPROVER_ensures (gh_defect == (__CPROVER_old (gh_defect) || (__CPROVER_return_value != NULL && *code < 0)))
{ const char *r; int c; *code = c; gh_rt_name = r; gh_rt_last = c; gh_defect = gh_defect || (r != NULL && c < 0); return r; }
const char *(*keep_rt) (int *) = read_terminal_c;
struct symb *find_repr_c (const char *repr)
__CPROVER_requires (CUR (gh_g))
__CPROVER_assigns (gh_repr_hit, gh_repr_arg, gh_defect)
__CPROVER_ensures (gh_repr_arg == repr && gh_repr_hit == (__CPROVER_return_value != NULL) && gh_defect == (__CPROVER_old (gh_defect) || gh_repr_hit))
;
struct symb *find_code_c (int code)
__CPROVER_requires (CUR (gh_g))
__CPROVER_assigns (gh_code_hit, gh_code_arg, gh_defect)
__CPROVER_ensures (gh_code_arg == code && gh_code_hit == (__CPROVER_return_value != NULL) && gh_defect == (__CPROVER_old (gh_defect) || gh_code_hit))
;
struct symb *add_term_c (const char *name, int code)
__CPROVER_requires (CUR (gh_g) && grammar->undefined_p == 1 && gh_emptied == 1)
/* a terminal is added only if it is new by name and by code and its code is not negative */
__CPROVER_requires (code >= 0 && gh_repr_hit == 0 && gh_repr_arg == name && gh_code_hit == 0 && gh_code_arg == code)
__CPROVER_requires (name == gh_rt_name && code == gh_rt_last)                              /* exactly what the callback delivered */
__CPROVER_assigns (gh_added, gh_add_name, gh_add_code)
__CPROVER_ensures (gh_added == 1 && gh_add_name == name && gh_add_code == code)
;

int rg_prefix_c (struct grammar *g, int strict_p, const char *(*read_terminal) (int *code))
__CPROVER_requires (__CPROVER_is_fresh (g, sizeof (*g)) && gh_g == g && (g->undefined_p == 0 || g->undefined_p == 1))
__CPROVER_requires (gh_emptied == 0 && gh_defect == 0)
__CPROVER_requires (__CPROVER_obeys_contract (read_terminal, read_terminal_c))
__CPROVER_assigns (grammar, symbs_ptr, term_sets_ptr, rules_ptr, g->undefined_p, gh_emptied, gh_rt_last, gh_rt_name, gh_repr_hit, gh_repr_arg, gh_code_hit, gh_code_arg,
                   gh_defect, gh_added, gh_add_name, gh_add_code, gh_err_code)
/* normal end of the region (terminal list exhausted): whatever the object held before, it is the current grammar, emptied and marked
   undefined; no defect was delivered (completeness of the checks of this region) */
__CPROVER_ensures (__CPROVER_return_value == -1 && CUR (g) && g->undefined_p == 1 && gh_emptied == 1 && gh_defect == 0 && gh_rt_name == NULL)
;
#define GH() do { HAVOC (gh_g); HAVOC (gh_emptied); HAVOC (gh_rt_last); HAVOC (gh_rt_name); HAVOC (gh_repr_hit); HAVOC (gh_code_hit); HAVOC (gh_repr_arg); HAVOC (gh_code_arg); \
  HAVOC (gh_defect); HAVOC (gh_added); HAVOC (gh_add_name); HAVOC (gh_add_code); HAVOC (gh_err_code); } while (0)
void h_rg_prefix (void)
{
  struct grammar *g; int strict; const char *(*rt) (int *);
  GH (); HAVOC (grammar); HAVOC (symbs_ptr); HAVOC (term_sets_ptr); HAVOC (rules_ptr);     /* arbitrary call history */
  verif_rg_prefix (g, strict, rt);
  if (gh_added) VACUITY_CANARY_N ("terminals added"); else VACUITY_CANARY_N ("no terminal");
}
