/* API.err.raise (C15, C12 UB.msg): the REAL yaep_error in faithful mode (variadic call, vsnprintf, longjmp as in the shipped
   text) against trusted models of vsnprintf and longjmp bound with -Dvsnprintf=verif_vsnprintf -Dlongjmp=verif_longjmp. */
#include "prelude.h"
#include "yaep_ghost.h"
#include <stdarg.h>
#include <setjmp.h>
size_t gh_msg_len; int gh_code_arg; int gh_jumped;
#include "yaep.c"
/* trusted model of vsnprintf (C99 7.19.6.12): writes at most n-1 characters and a terminating NUL into s.
   What is CHECKED here is what the caller passes: the destination is the message buffer of the current grammar and the
   size does not exceed that buffer (the buffer is a struct member: CBMC's object bounds would not catch an overflow into the
   next member, so the size is compared with the member's size explicitly). */
int verif_vsnprintf (char *s, size_t n, const char *fmt, va_list ap)
{
  size_t len;
  __CPROVER_assert (s == grammar->error_message, "the message is formatted into the message buffer of the current grammar");
  __CPROVER_assert (n >= 2 && n <= sizeof (grammar->error_message), "the size given to vsnprintf fits the message buffer");
  __CPROVER_assert (fmt != NULL && fmt[0] != '\0' && fmt[0] != '%', "format starts with literal text (message is non-empty)");
  __CPROVER_assume (len >= 1 && len < n);
  s[0] = fmt[0]; s[len] = '\0'; gh_msg_len = len;
  return (int) len;
}
void verif_longjmp (jmp_buf env, int val)
{
  /* state at the non-local exit: C15 "yaep_error_code equals the code returned; the message is a non-empty NUL-terminated text" */
  __CPROVER_assert (env == error_longjump_buff, "jumps to the library's handler");
  __CPROVER_assert (val == gh_code_arg && grammar->error_code == gh_code_arg, "the recorded code is the code raised and the value the API call returns");
  __CPROVER_assert (grammar->error_message[0] != '\0' && grammar->error_message[gh_msg_len] == '\0' && gh_msg_len < sizeof (grammar->error_message),
                    "message is non-empty and NUL-terminated inside its buffer");
  gh_jumped = 1;
  VACUITY_CANARY ();
  __CPROVER_assume (0);
}
void h_yaep_error (void)
{
  int code, d; char str[8]; _Bool with_args;
  grammar = malloc (sizeof (struct grammar)); __CPROVER_assume (grammar != NULL);
  __CPROVER_assume (code != 0); gh_code_arg = code; str[7] = 0;
  if (with_args) yaep_error (code, "repeated code %d in term `%s'", d, str); else yaep_error (code, "no memory");
  __CPROVER_assert (0, "yaep_error never returns");
}
