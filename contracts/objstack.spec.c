/* C19 OS.*: objstack.c and the OS_* macros under contract. */
#include "prelude.h"
#include "objstack.h"
/* ---- ghost state (declared before the real TU so injected loop contracts can see it) ---- */
size_t gh_seglen;        /* payload length of the current segment: block has gh_seglen + sizeof(struct _os_segment) bytes */
size_t gh_len;           /* length of the top object before the call */
size_t gh_newlen;        /* payload length of the segment created by an expansion */
size_t gh_k;             /* ghost index into the top object */
char gh_byte;            /* top[gh_k] before the call */
size_t gh_start_off;     /* offset of os_top_object_start in its block before the call */
struct _os_segment *gh_seg, *gh_prev;
#include "objstack.c"
/* C17 at contract level: what must hold of the object stack at the moment a memory request made on its behalf fails (the allocator's error
   callback then leaves by longjmp and the owner later deletes the stack).  Only reachable in the sets run with a malloc that may fail. */
os_t *verif_exit_os;
#ifdef VERIF_OS_EXIT_CHECK        /* only in the set OS.expand.fail: elsewhere a failing request simply ends the path (alloc_model.h) */
static void verif_os_exit_check (void);
#define VERIF_ALLOC_FAIL_HOOK() do { verif_os_exit_check (); __CPROVER_assume (0); } while (0)
#endif
#include "alloc_model.h"
#ifdef VERIF_OS_EXIT_CHECK
static void verif_os_exit_check (void)
{
  __CPROVER_assert (__CPROVER_r_ok (verif_exit_os->os_current_segment, sizeof (struct _os_segment)),
                    "C17 exit assertion: when a memory request fails the object stack still owns its current segment (it can still be emptied or deleted)");
  __CPROVER_assert (__CPROVER_same_object (verif_exit_os->os_top_object_start, verif_exit_os->os_current_segment)
                    && __CPROVER_same_object (verif_exit_os->os_top_object_free, verif_exit_os->os_current_segment),
                    "C17 exit assertion: when a memory request fails the top object still lies in the current segment");
}
#endif
#ifndef CAP
#define CAP 64
#endif
#define HDR (sizeof (struct _os_segment))          /* 16 */
#define PAY (offsetof (struct _os_segment, os_segment_contest))   /* 8 */
#define OFF(p) __CPROVER_POINTER_OFFSET (p)

/* Representation invariant of one object stack whose current segment has payload length L. */
#define SEGB(o) ((char *) (o)->os_current_segment)
#define OS_INV(o, L) (__CPROVER_is_fresh (o, sizeof (*(o))) && (L) >= 1 && (L) <= CAP \
  && __CPROVER_is_fresh ((o)->os_current_segment, (L) + HDR) \
  && (o)->os_alloc != NULL \
  && __CPROVER_pointer_in_range_dfcc (SEGB (o), (o)->os_top_object_start, SEGB (o) + (L) + HDR) \
  && __CPROVER_pointer_in_range_dfcc (SEGB (o), (o)->os_top_object_free, SEGB (o) + (L) + HDR) \
  && (o)->os_boundary == SEGB (o) + PAY + (L) \
  && OFF ((o)->os_top_object_start) >= PAY && OFF ((o)->os_top_object_start) % _OS_ALIGNMENT == 0 \
  && OFF ((o)->os_top_object_start) <= OFF ((o)->os_top_object_free) \
  && OFF ((o)->os_top_object_free) <= PAY + (L) + (_OS_ALIGNMENT - 1) \
  && (OFF ((o)->os_top_object_free) <= PAY + (L) || OFF ((o)->os_top_object_free) == OFF ((o)->os_top_object_start)))
/* the same, as a postcondition over a block that already exists */
#define OS_INV_POST(o, L) ((L) >= 1 \
  && (o)->os_alloc != NULL \
  && __CPROVER_same_object ((o)->os_top_object_start, (o)->os_current_segment) \
  && __CPROVER_same_object ((o)->os_top_object_free, (o)->os_current_segment) \
  && __CPROVER_same_object ((o)->os_boundary, (o)->os_current_segment) \
  && OFF ((o)->os_current_segment) == 0 && __CPROVER_OBJECT_SIZE ((o)->os_current_segment) == (L) + HDR \
  && OFF ((o)->os_boundary) == PAY + (L) \
  && OFF ((o)->os_top_object_start) >= PAY && OFF ((o)->os_top_object_start) % _OS_ALIGNMENT == 0 \
  && OFF ((o)->os_top_object_start) <= OFF ((o)->os_top_object_free) \
  && OFF ((o)->os_top_object_free) <= PAY + (L) + (_OS_ALIGNMENT - 1) \
  && (OFF ((o)->os_top_object_free) <= PAY + (L) || OFF ((o)->os_top_object_free) == OFF ((o)->os_top_object_start)))

/* ---- OS.create ---- */
void os_create_c (os_t *os, size_t initial_segment_length)
__CPROVER_requires (__CPROVER_is_fresh (os, sizeof (*os)) && os->os_alloc != NULL && initial_segment_length <= CAP)
__CPROVER_assigns (os->os_current_segment, os->os_top_object_start, os->os_top_object_free, os->os_boundary, os->initial_segment_length)
__CPROVER_ensures (os->initial_segment_length == (initial_segment_length == 0 ? OS_DEFAULT_SEGMENT_LENGTH : initial_segment_length))
__CPROVER_ensures (__CPROVER_is_fresh (os->os_current_segment, os->initial_segment_length + HDR))
__CPROVER_ensures (os->os_current_segment->os_previous_segment == NULL)
__CPROVER_ensures (OS_INV_POST (os, os->initial_segment_length))
__CPROVER_ensures (os->os_top_object_free == os->os_top_object_start && OFF (os->os_top_object_start) == PAY)   /* one empty top object */
;

/* ---- OS.expand ---- */
void os_expand_c (os_t *os, size_t additional_length)
__CPROVER_requires (OS_INV (os, gh_seglen) && additional_length <= CAP)
__CPROVER_requires (gh_len == OFF (os->os_top_object_free) - OFF (os->os_top_object_start))
__CPROVER_requires (gh_k < gh_len && gh_byte == os->os_top_object_start[gh_k])
__CPROVER_requires (gh_start_off == OFF (os->os_top_object_start) && gh_seg == os->os_current_segment && gh_prev == os->os_current_segment->os_previous_segment)
__CPROVER_assigns (os->os_current_segment, os->os_top_object_start, os->os_top_object_free, os->os_boundary)
__CPROVER_frees (os->os_current_segment)
/* the new segment: fresh, large enough for the top object plus the request, never below the default length */
__CPROVER_ensures (__CPROVER_is_fresh (os->os_current_segment, OFF (os->os_boundary) + PAY))
__CPROVER_ensures (OS_INV_POST (os, OFF (os->os_boundary) - PAY))
__CPROVER_ensures (OFF (os->os_boundary) - PAY >= OS_DEFAULT_SEGMENT_LENGTH)
__CPROVER_ensures (OFF (os->os_boundary) - PAY > gh_len + additional_length)
/* the top object: starts the new payload, same length, same bytes, and there is room for the request */
__CPROVER_ensures (OFF (os->os_top_object_start) == PAY && OFF (os->os_top_object_free) == PAY + gh_len)
__CPROVER_ensures (os->os_top_object_start[gh_k] == gh_byte)
__CPROVER_ensures (OFF (os->os_top_object_free) + additional_length <= OFF (os->os_boundary))
/* the old segment goes away exactly when it held nothing but the top object; otherwise it stays linked (finished objects never move) */
__CPROVER_ensures (gh_start_off == PAY ? (__CPROVER_was_freed (gh_seg) && os->os_current_segment->os_previous_segment == gh_prev)
                                       : (!__CPROVER_was_freed (gh_seg) && os->os_current_segment->os_previous_segment == gh_seg))
;

/* ---- OS.string ---- */
size_t strlen_c (const char *s)
__CPROVER_requires (1)
__CPROVER_assigns ()
__CPROVER_ensures (__CPROVER_return_value < CAP)
;

/* ---- macro wrappers: the body IS the macro invocation, so the preprocessor expands the real text ---- */
void w_top_finish (os_t *os) { OS_TOP_FINISH (*os); }
void w_top_nullify (os_t *os) { OS_TOP_NULLIFY (*os); }
void w_top_expand (os_t *os, size_t n) { OS_TOP_EXPAND (*os, n); }
void w_top_add_byte (os_t *os, char b) { OS_TOP_ADD_BYTE (*os, b); }
void w_top_add_memory (os_t *os, const void *src, size_t n) { OS_TOP_ADD_MEMORY (*os, src, n); }
void w_top_shorten (os_t *os, size_t n) { OS_TOP_SHORTEN (*os, n); }
size_t w_top_length (os_t *os) { return OS_TOP_LENGTH (*os); }
void *w_top_begin (os_t *os) { return OS_TOP_BEGIN (*os); }

/* what callers of _OS_expand_memory may rely on (same clauses as os_expand_c minus the ghost bookkeeping of segments) */
void os_expand_use_c (os_t *os, size_t additional_length)
/* the ghost byte, if it lies inside the top object as it is at this call, still has its recorded value */
__CPROVER_requires (gh_k < (size_t) (OFF (os->os_top_object_free) - OFF (os->os_top_object_start)) ==> gh_byte == os->os_top_object_start[gh_k])
__CPROVER_assigns (os->os_current_segment, os->os_top_object_start, os->os_top_object_free, os->os_boundary, gh_newlen)
__CPROVER_ensures (gh_newlen >= OS_DEFAULT_SEGMENT_LENGTH && gh_newlen <= 2 * CAP + OS_DEFAULT_SEGMENT_LENGTH
                   && gh_newlen >= (size_t) (OFF (__CPROVER_old (os->os_top_object_free)) - OFF (__CPROVER_old (os->os_top_object_start))) + additional_length)
__CPROVER_ensures (__CPROVER_is_fresh (os->os_current_segment, gh_newlen + HDR))
__CPROVER_ensures (__CPROVER_pointer_in_range_dfcc (SEGB (os) + PAY, os->os_top_object_start, SEGB (os) + PAY))
__CPROVER_ensures (__CPROVER_pointer_in_range_dfcc (SEGB (os) + PAY + (OFF (__CPROVER_old (os->os_top_object_free)) - OFF (__CPROVER_old (os->os_top_object_start))), os->os_top_object_free,
                                                    SEGB (os) + PAY + (OFF (__CPROVER_old (os->os_top_object_free)) - OFF (__CPROVER_old (os->os_top_object_start)))))
__CPROVER_ensures (__CPROVER_pointer_in_range_dfcc (SEGB (os) + PAY + gh_newlen, os->os_boundary, SEGB (os) + PAY + gh_newlen))
__CPROVER_ensures (gh_k < (size_t) (OFF (os->os_top_object_free) - OFF (os->os_top_object_start)) ==> os->os_top_object_start[gh_k] == gh_byte)
;

void top_finish_c (os_t *os)
__CPROVER_requires (OS_INV (os, gh_seglen))
__CPROVER_assigns (os->os_top_object_start, os->os_top_object_free)
/* the finished object keeps its place: the new top starts at the next aligned address at or after the old end, and is empty */
__CPROVER_ensures (OS_INV_POST (os, gh_seglen))
__CPROVER_ensures (os->os_top_object_free == os->os_top_object_start)
__CPROVER_ensures (OFF (os->os_top_object_start) >= OFF (__CPROVER_old (os->os_top_object_free))
                   && OFF (os->os_top_object_start) < OFF (__CPROVER_old (os->os_top_object_free)) + _OS_ALIGNMENT)
;
void top_nullify_c (os_t *os)
__CPROVER_requires (OS_INV (os, gh_seglen))
__CPROVER_assigns (os->os_top_object_free)
__CPROVER_ensures (os->os_top_object_free == os->os_top_object_start)
;
void top_shorten_c (os_t *os, size_t n)
__CPROVER_requires (OS_INV (os, gh_seglen) && gh_len == OFF (os->os_top_object_free) - OFF (os->os_top_object_start))
__CPROVER_assigns (os->os_top_object_free)
__CPROVER_ensures (OFF (os->os_top_object_free) - OFF (os->os_top_object_start) == (gh_len < n ? 0 : gh_len - n))
__CPROVER_ensures (__CPROVER_same_object (os->os_top_object_free, os->os_top_object_start))
;
size_t top_length_c (os_t *os)
__CPROVER_requires (OS_INV (os, gh_seglen))
__CPROVER_assigns ()
__CPROVER_ensures (__CPROVER_return_value == OFF (os->os_top_object_free) - OFF (os->os_top_object_start))
;
void top_add_byte_c (os_t *os, char b)
__CPROVER_requires (OS_INV (os, gh_seglen) && gh_len == OFF (os->os_top_object_free) - OFF (os->os_top_object_start))
__CPROVER_requires (gh_len == 0 || (gh_k < gh_len && gh_byte == os->os_top_object_start[gh_k]))
__CPROVER_assigns (os->os_current_segment, os->os_top_object_start, os->os_top_object_free, os->os_boundary, gh_newlen, __CPROVER_object_from (os->os_top_object_free))
__CPROVER_ensures (OFF (os->os_top_object_free) - OFF (os->os_top_object_start) == gh_len + 1)
__CPROVER_ensures (os->os_top_object_start[gh_len] == b)                                /* the appended byte */
__CPROVER_ensures (gh_len == 0 || os->os_top_object_start[gh_k] == gh_byte)            /* earlier bytes unchanged */
__CPROVER_ensures (OFF (os->os_top_object_free) <= OFF (os->os_boundary))              /* written inside the segment */
__CPROVER_ensures (__CPROVER_same_object (os->os_top_object_free, os->os_current_segment) && __CPROVER_same_object (os->os_boundary, os->os_current_segment)
                   && OFF (os->os_boundary) + PAY == __CPROVER_OBJECT_SIZE (os->os_current_segment))
;
const char *gh_src; size_t gh_j;
void top_add_memory_c (os_t *os, const void *src, size_t n)
__CPROVER_requires (OS_INV (os, gh_seglen) && gh_len == OFF (os->os_top_object_free) - OFF (os->os_top_object_start))
__CPROVER_requires (n >= 1 && n <= CAP && __CPROVER_is_fresh (src, n) && gh_j < n)
__CPROVER_requires (gh_len == 0 || (gh_k < gh_len && gh_byte == os->os_top_object_start[gh_k]))
__CPROVER_assigns (os->os_current_segment, os->os_top_object_start, os->os_top_object_free, os->os_boundary, gh_newlen, __CPROVER_object_from (os->os_top_object_free))
__CPROVER_ensures (OFF (os->os_top_object_free) - OFF (os->os_top_object_start) == gh_len + n)
__CPROVER_ensures (os->os_top_object_start[gh_len + gh_j] == ((const char *) src)[gh_j])   /* appended bytes equal the source */
__CPROVER_ensures (gh_len == 0 || os->os_top_object_start[gh_k] == gh_byte)
__CPROVER_ensures (OFF (os->os_top_object_free) <= OFF (os->os_boundary))
;
void top_expand_c (os_t *os, size_t n)
__CPROVER_requires (OS_INV (os, gh_seglen) && gh_len == OFF (os->os_top_object_free) - OFF (os->os_top_object_start))
__CPROVER_requires (n <= CAP)
__CPROVER_requires (gh_len == 0 || (gh_k < gh_len && gh_byte == os->os_top_object_start[gh_k]))
__CPROVER_assigns (os->os_current_segment, os->os_top_object_start, os->os_top_object_free, os->os_boundary, gh_newlen)
__CPROVER_ensures (OFF (os->os_top_object_free) - OFF (os->os_top_object_start) == gh_len + n)
__CPROVER_ensures (gh_len == 0 || os->os_top_object_start[gh_k] == gh_byte)
__CPROVER_ensures (OFF (os->os_top_object_free) <= OFF (os->os_boundary))
__CPROVER_ensures (__CPROVER_same_object (os->os_top_object_free, os->os_current_segment) && __CPROVER_same_object (os->os_top_object_start, os->os_current_segment))
;

/* ---- harnesses ---- */
#define GH() do { HAVOC (gh_seglen); HAVOC (gh_len); HAVOC (gh_k); HAVOC (gh_byte); HAVOC (gh_start_off); HAVOC (gh_seg); HAVOC (gh_prev); HAVOC (gh_j); HAVOC (gh_newlen); } while (0)
void h_os_create (void) { GH (); os_t *os; size_t n; _OS_create_function (os, n); VACUITY_CANARY (); }
void h_os_expand (void) { GH (); os_t *os; size_t n; _OS_expand_memory (os, n);
  if (gh_start_off == PAY) VACUITY_CANARY_N ("old segment released"); else VACUITY_CANARY_N ("old segment kept"); }
void h_top_finish (void) { GH (); os_t *os; w_top_finish (os); VACUITY_CANARY (); }
void h_top_nullify (void) { GH (); os_t *os; w_top_nullify (os); VACUITY_CANARY (); }
void h_top_shorten (void) { GH (); os_t *os; size_t n; w_top_shorten (os, n); VACUITY_CANARY (); }
void h_top_length (void) { GH (); os_t *os; w_top_length (os); VACUITY_CANARY (); }
void h_top_add_byte (void) { GH (); os_t *os; char b; char *old = os ? 0 : 0; w_top_add_byte (os, b); VACUITY_CANARY (); }
void h_top_add_memory (void) { GH (); os_t *os; const void *src; size_t n; w_top_add_memory (os, src, n); VACUITY_CANARY (); }
void h_top_expand (void) { GH (); os_t *os; size_t n; w_top_expand (os, n); VACUITY_CANARY (); }

/* ---- OS.string: _OS_add_string_function (strlen by a trusted contract tied to the ghost length gh_slen) ---- */
size_t gh_slen;
size_t strlen_gh_c (const char *s)
__CPROVER_assigns ()
__CPROVER_ensures (__CPROVER_return_value == gh_slen)       /* A2: strlen returns the index of the terminating NUL, which the harness names gh_slen */
;
void os_add_string_c (os_t *os, const char *str)
__CPROVER_requires (OS_INV (os, gh_seglen) && gh_len == OFF (os->os_top_object_free) - OFF (os->os_top_object_start))
__CPROVER_requires (gh_slen < CAP && (str == NULL || (__CPROVER_is_fresh (str, gh_slen + 1) && str[gh_slen] == '\0')) && gh_j <= gh_slen)
__CPROVER_requires (gh_len <= 1 || (gh_k < gh_len - 1 && gh_byte == os->os_top_object_start[gh_k]))
__CPROVER_assigns (os->os_current_segment, os->os_top_object_start, os->os_top_object_free, os->os_boundary, gh_newlen, __CPROVER_object_whole (os->os_top_object_free))
__CPROVER_ensures (str == NULL ==> OFF (os->os_top_object_free) - OFF (os->os_top_object_start) == gh_len)
/* the string (with its NUL) is appended after dropping the previous terminator, if the object was not empty */
__CPROVER_ensures (str != NULL ==> OFF (os->os_top_object_free) - OFF (os->os_top_object_start) == (gh_len == 0 ? 0 : gh_len - 1) + gh_slen + 1)
__CPROVER_ensures (str != NULL ==> os->os_top_object_start[(gh_len == 0 ? 0 : gh_len - 1) + gh_j] == str[gh_j])
__CPROVER_ensures (gh_len <= 1 || os->os_top_object_start[gh_k] == gh_byte)              /* earlier bytes (except the dropped terminator) unchanged */
__CPROVER_ensures (str != NULL ==> OFF (os->os_top_object_free) <= OFF (os->os_boundary))
;
void h_os_add_string (void) { GH (); HAVOC (gh_slen); os_t *os; const char *s; _OS_add_string_function (os, s); if (s) VACUITY_CANARY_N ("string"); else VACUITY_CANARY_N ("NULL"); }

/* ---- OS.expand.fail (C17): _OS_expand_memory with a memory request that may fail; plain harness, stack built here so that the exit check can reach it ---- */
static char verif_allocator_dummy;
static void build_os (os_t *o, size_t L, struct _os_segment *prev)
{
  struct _os_segment *seg = malloc (L + HDR); size_t st, fr;
  __CPROVER_assume (seg != NULL);
  seg->os_previous_segment = prev;
  HAVOC (st); HAVOC (fr); __CPROVER_assume (st % _OS_ALIGNMENT == 0 && st <= L && st <= fr && fr <= L);
  o->os_alloc = (YaepAllocator *) &verif_allocator_dummy; o->os_current_segment = seg;
  o->os_top_object_start = (char *) seg + PAY + st; o->os_top_object_free = (char *) seg + PAY + fr; o->os_boundary = (char *) seg + PAY + L;
}
void h_os_expand_fail (void)
{
  os_t o; size_t L, n; struct _os_segment *prev = NULL;
  HAVOC (L); HAVOC (n); __CPROVER_assume (L >= 1 && L <= CAP && n <= CAP);
  { _Bool chained; HAVOC (chained); if (chained) { prev = malloc (HDR + 8); __CPROVER_assume (prev != NULL); prev->os_previous_segment = NULL; } }
  HAVOC (o.initial_segment_length);
  build_os (&o, L, prev);
  verif_exit_os = &o;
  _OS_expand_memory (&o, n);
  VACUITY_CANARY_N ("request granted");
}
/* ---- OS.empty (C19): OS_EMPTY keeps the FIRST segment - the one the initial length describes - and releases the later ones; bounded: <= 3 segments ---- */
void h_os_empty (void)
{
  os_t o; size_t L0, L1, L2; int nseg; struct _os_segment *first, *s1 = NULL, *s2 = NULL;
  HAVOC (L0); HAVOC (L1); HAVOC (L2); HAVOC (nseg);
  __CPROVER_assume (L0 >= 1 && L0 <= CAP && L1 >= 1 && L1 <= CAP && L2 >= 1 && L2 <= CAP && nseg >= 1 && nseg <= 3);
  first = malloc (L0 + HDR); __CPROVER_assume (first != NULL); first->os_previous_segment = NULL;
  o.initial_segment_length = L0;
  if (nseg == 1) build_os (&o, L0, NULL), free (o.os_current_segment), o.os_current_segment = first, o.os_top_object_start = o.os_top_object_free = (char *) first + PAY, o.os_boundary = (char *) first + PAY + L0;
  else if (nseg == 2) build_os (&o, L1, first);
  else { s1 = malloc (L1 + HDR); __CPROVER_assume (s1 != NULL); s1->os_previous_segment = first; build_os (&o, L2, s1); }
  _OS_empty_function (&o);
  __CPROVER_assert (o.os_current_segment == first, "OS_EMPTY keeps the first segment of the stack");
  __CPROVER_assert (__CPROVER_r_ok (first, L0 + HDR), "the kept segment is live and has the initial length");
  __CPROVER_assert (o.os_top_object_start == (char *) first + PAY && o.os_top_object_free == o.os_top_object_start, "one empty top object at the first payload byte");
  __CPROVER_assert (o.os_boundary == (char *) first + PAY + L0, "the boundary is the end of the kept segment's payload: appended bytes stay inside the block");
  if (nseg == 3) VACUITY_CANARY_N ("three segments"); else if (nseg == 2) VACUITY_CANARY_N ("two segments"); else VACUITY_CANARY_N ("one segment");
}
