/* RG.rule (C10 rule-level defects, C12): the body of the rule-intake loop of yaep_read_grammar (rule R7: everything done for ONE rule the
   callback delivered) under contract.  The symbol table and the rule storage are replaced by contracts that publish what they were
   asked and what they answered in ghost variables (rule_new_start's is the one T.copy.rule proves, restated without the storage).
   Every error exit must name a defect that is really present in what was delivered; a normal end means the rule has none of the
   rule-level defects, and the rule record describes exactly what was delivered: length of the right-hand side, the order array
   (order[p] == index of the translation entry naming position p), the number of translation children.
   Bound: the right-hand side and the translation of the rule have <= 8 entries each (universal facts about the two arrays are written
   out entry by entry); both loops are closed by loop contracts, nothing is unwound. */
#include "prelude.h"
#include "yaep_ghost.h"
#include "yaep.c"
#include "r7_rg_rule.inc"
#ifdef VERIF_DFCC
void verif_error_exit (int code) { __CPROVER_assume (0); }
#endif
#ifndef RLMAX
#define RLMAX 8
#endif
#ifndef TLMAX
#define TLMAX 8
#endif
_Static_assert (RLMAX <= 8 && TLMAX <= 8 && GH_NILT == YAEP_NIL_TRANSLATION_NUMBER, "array caps of RG.rule");
struct symb *gh_sym_a;
#define CURR (rules_ptr->curr_rule)
#define IS_AXIOM_NAME(s) ((s)[0] == '$' && (s)[1] == 'S' && (s)[2] == '\0')
#define IS_EOF_NAME(s) ((s)[0] == '$' && (s)[1] == 'e' && (s)[2] == 'o' && (s)[3] == 'f' && (s)[4] == '\0')
/* the main rule record has been started (after the start rule, if this is the first rule) */
#define MAIN_STARTED (gh_ns_calls == (gh_first ? 2 : 1))
/* translation entry k is out of range / repeats an earlier entry */
/* (written over the by-value copy gh_tv, without short-circuit operators: no branching in the 9 places these are evaluated) */
#define T_OUT(k) ((gh_transl != NULL) & ((k) < gh_tl) & (gh_tv[k] >= gh_rl) & (gh_tv[k] != GH_NILT))
#define T_REP2(a, b) (((a) < (b)) & ((b) < gh_tl) & (gh_tv[a] == gh_tv[b]) & (gh_tv[a] < gh_rl))
#define T_REP(b) ((gh_transl != NULL) & (T_REP2 (0, b) | T_REP2 (1, b) | T_REP2 (2, b) | T_REP2 (3, b) | T_REP2 (4, b) | T_REP2 (5, b) | T_REP2 (6, b)))
#define ANY8B(P) (P (0) | P (1) | P (2) | P (3) | P (4) | P (5) | P (6) | P (7))

/* every error exit of the body: the object is still marked undefined, and the code names a defect present in what was delivered */
void err_rule_c (int code)
__CPROVER_requires (grammar == gh_g && grammar->undefined_p == 1)
__CPROVER_requires (code == YAEP_TERM_IN_RULE_LHS || code == YAEP_FIXED_NAME_USAGE || code == YAEP_INCORRECT_TRANSLATION || code == YAEP_NEGATIVE_COST
                    || code == YAEP_INCORRECT_SYMBOL_NUMBER || code == YAEP_REPEATED_SYMBOL_NUMBER)
/* the left-hand side name was looked up (first lookup) and is a terminal */
__CPROVER_requires (code == YAEP_TERM_IN_RULE_LHS ==> (gh_nfind == 1 && gh_fr_hit && gh_fr_term && gh_lhs_term))
/* the name last looked up - the left-hand side, the second and third lookup of the first rule ($S, $eof: the literals are not looked into here, a
   dereference of the looked-up name inside the right-hand side loop makes symex blow up), or the current right-hand side name - is one of the two reserved symbols */
__CPROVER_requires (code == YAEP_FIXED_NAME_USAGE ==> (gh_fr_hit && (gh_fr_ax || gh_fr_em || (gh_first && gh_ns_calls == 0 && (gh_nfind == 2 || gh_nfind == 3)))))
__CPROVER_requires (code == YAEP_FIXED_NAME_USAGE ==> ((gh_nfind == 1 && gh_fr_arg == (size_t) gh_lhs) || (gh_first && gh_nfind == 2) || (gh_first && gh_nfind == 3)
                                                        || (MAIN_STARTED && gh_stops == (gh_first ? 1 : 0) && gh_fr_arg == (size_t) gh_rhs0[CURR->rhs_len])))
__CPROVER_requires (code == YAEP_INCORRECT_TRANSLATION ==> (gh_anode == NULL && gh_transl != NULL && gh_transl[0] >= 0 && gh_transl[1] >= 0))
__CPROVER_requires (code == YAEP_NEGATIVE_COST ==> (gh_anode != NULL && gh_cost < 0))
__CPROVER_requires (code == YAEP_INCORRECT_SYMBOL_NUMBER ==> (MAIN_STARTED && gh_stops == (gh_first ? 2 : 1) && CURR->rhs_len == gh_rl && ANY8B (T_OUT)))
__CPROVER_requires (code == YAEP_REPEATED_SYMBOL_NUMBER ==> (MAIN_STARTED && gh_stops == (gh_first ? 2 : 1) && CURR->rhs_len == gh_rl && ANY8B (T_REP)))
__CPROVER_assigns (gh_err_code)
__CPROVER_ensures (0)
;
/* A7 (assumed, as in RG.prefix): the lookup answers with a symbol of the table or NULL.  Here: NULL, some ordinary symbol (gh_sym_a, terminal
   or not), or one of the two reserved symbols once they exist. */
struct symb *find_repr2_c (const char *repr)
__CPROVER_requires (grammar == gh_g && repr != NULL)
__CPROVER_assigns (gh_nfind, gh_fr_arg, gh_fr_hit, gh_fr_term, gh_fr_ax, gh_fr_em, gh_cur_sym, gh_cur_lhs, gh_lhs_term)
__CPROVER_ensures (__CPROVER_return_value == NULL || __CPROVER_pointer_in_range_dfcc (gh_sym_a, __CPROVER_return_value, gh_sym_a)
                   || (grammar->axiom != NULL && __CPROVER_pointer_in_range_dfcc (grammar->axiom, __CPROVER_return_value, grammar->axiom))
                   || (grammar->end_marker != NULL && __CPROVER_pointer_in_range_dfcc (grammar->end_marker, __CPROVER_return_value, grammar->end_marker)))
__CPROVER_ensures (gh_nfind == __CPROVER_old (gh_nfind) + 1 && gh_fr_arg == (size_t) repr && gh_fr_hit == (__CPROVER_return_value != NULL) && gh_cur_sym == (size_t) __CPROVER_return_value)
__CPROVER_ensures (gh_fr_term == (__CPROVER_return_value != NULL && __CPROVER_return_value->term_p != 0))
__CPROVER_ensures (gh_fr_ax == (__CPROVER_return_value != NULL && __CPROVER_return_value == grammar->axiom) && gh_fr_em == (__CPROVER_return_value != NULL && __CPROVER_return_value == grammar->end_marker))
/* the first lookup is the one of the left-hand side */
__CPROVER_ensures (__CPROVER_old (gh_nfind) == 0 ? (gh_cur_lhs == (size_t) __CPROVER_return_value && gh_lhs_term == gh_fr_term) : (gh_cur_lhs == __CPROVER_old (gh_cur_lhs) && gh_lhs_term == __CPROVER_old (gh_lhs_term)))
;
/* A7': negative codes are never in the table (RG.prefix: a terminal is added only with code >= 0; `error' has -2, $eof gets -1 here) */
struct symb *find_code2_c (int code)
__CPROVER_requires (grammar == gh_g && code == END_MARKER_CODE && gh_first && gh_nfind == 3 && !gh_fr_hit)
__CPROVER_assigns ()
__CPROVER_ensures (__CPROVER_return_value == NULL)
;
/* a nonterminal is made only for the name that was just looked up and not found */
struct symb *add_nonterm2_c (const char *name)
__CPROVER_requires (grammar == gh_g && grammar->undefined_p == 1 && gh_fr_arg == (size_t) name && !gh_fr_hit)
__CPROVER_assigns (gh_nadd_nt, gh_cur_sym, gh_cur_lhs)
__CPROVER_ensures (__CPROVER_is_fresh (__CPROVER_return_value, sizeof (struct symb)))
__CPROVER_ensures (__CPROVER_return_value->term_p == 0 && __CPROVER_return_value->u.nonterm.rules == NULL)
__CPROVER_ensures (gh_nadd_nt == __CPROVER_old (gh_nadd_nt) + 1 && gh_cur_sym == (size_t) __CPROVER_return_value && gh_cur_lhs == (gh_nfind == 1 ? (size_t) __CPROVER_return_value : __CPROVER_old (gh_cur_lhs)))
;
struct symb *add_term2_c (const char *name, int code)
__CPROVER_requires (grammar == gh_g && grammar->undefined_p == 1 && gh_first && gh_nfind == 3 && gh_fr_arg == (size_t) name && !gh_fr_hit && IS_EOF_NAME (name) && code == END_MARKER_CODE && gh_nadd_t == 0)
__CPROVER_assigns (gh_nadd_t)
__CPROVER_ensures (__CPROVER_is_fresh (__CPROVER_return_value, sizeof (struct symb)))
__CPROVER_ensures (__CPROVER_return_value->term_p == 1 && __CPROVER_return_value->u.term.code == code && gh_nadd_t == 1)
;
/* rule_new_start as proved by T.copy.rule, without the storage: a new record for LHS, empty right-hand side, no translation yet; it becomes the current rule.
   Called for the start rule ($S, no abstract node) and then for the delivered rule: with its left-hand side symbol, its abstract node, and its cost (0 without abstract node) */
struct rule *rns_c (struct symb *lhs, const char *anode, int anode_cost)
__CPROVER_requires (grammar == gh_g && lhs != NULL && gh_nfind >= 1)
__CPROVER_requires ((gh_first && gh_ns_calls == 0) ? (lhs == grammar->axiom && anode == NULL && anode_cost == 0 && gh_nadd_t == 1)
                                                    : (MAIN_STARTED == 0 && gh_ns_calls == (gh_first ? 1 : 0) && (size_t) lhs == gh_cur_lhs && anode == gh_anode && anode_cost == (gh_anode != NULL ? gh_cost : 0)))
__CPROVER_assigns (rules_ptr->curr_rule, gh_ns_calls)
__CPROVER_assigns (gh_first && gh_ns_calls == 0: gh_sr)         /* (only the start rule is recorded: a ghost pointer that is havoced and tied back by an equality loses its target) */
__CPROVER_ensures (__CPROVER_is_fresh (__CPROVER_return_value, sizeof (struct rule)))
__CPROVER_ensures (__CPROVER_pointer_in_range_dfcc (__CPROVER_return_value, rules_ptr->curr_rule, __CPROVER_return_value))
__CPROVER_ensures (!(gh_first && __CPROVER_old (gh_ns_calls) == 0) || __CPROVER_pointer_in_range_dfcc (__CPROVER_return_value, gh_sr, __CPROVER_return_value))
__CPROVER_ensures (__CPROVER_return_value->lhs == lhs && __CPROVER_return_value->rhs_len == 0 && __CPROVER_return_value->trans_len == 0 && __CPROVER_return_value->order == NULL
                   && __CPROVER_return_value->anode_cost == anode_cost && (anode == NULL) == (__CPROVER_return_value->anode == NULL) && gh_ns_calls == __CPROVER_old (gh_ns_calls) + 1)
;
/* the symbols of the start rule are the left-hand side's and $eof; those of the delivered rule are the ones found or made for its names, in order */
void rnsa_c (struct symb *symb)
__CPROVER_requires (grammar == gh_g && symb != NULL && CURR != NULL && CURR->rhs_len >= 0 && CURR->rhs_len < 8)
__CPROVER_requires ((gh_first && gh_ns_calls == 1) ? ((CURR->rhs_len == 0 && (size_t) symb == gh_cur_lhs) || (CURR->rhs_len == 1 && symb == grammar->end_marker))
                                                    : (MAIN_STARTED && (size_t) symb == gh_cur_sym && gh_fr_arg == (size_t) gh_rhs0[CURR->rhs_len] && CURR->rhs_len < gh_rl))
__CPROVER_assigns (CURR->rhs_len, gh_nsa)
__CPROVER_ensures (CURR->rhs_len == __CPROVER_old (CURR->rhs_len) + 1 && gh_nsa == __CPROVER_old (gh_nsa) + 1)
;
/* rule_new_stop: the order array has one entry per right-hand side symbol, all unset (-1) */
#define ORD_UNSET(e) ((e) >= CURR->rhs_len || CURR->order[e] == -1)
void rnstop_c (void)
__CPROVER_requires (grammar == gh_g && CURR != NULL && CURR->order == NULL && CURR->rhs_len >= 0 && CURR->rhs_len <= 8)
__CPROVER_requires ((gh_first && gh_ns_calls == 1) ? (CURR->rhs_len == 2 && gh_stops == 0) : (MAIN_STARTED && CURR->rhs_len == gh_rl && gh_stops == (gh_first ? 1 : 0)))
__CPROVER_assigns (CURR->order, gh_stops)
/* (T.rule.stop: for an empty right-hand side the order array is an empty object - some non-NULL pointer that must not be dereferenced) */
__CPROVER_ensures (CURR->rhs_len == 0 || __CPROVER_is_fresh (CURR->order, (size_t) CURR->rhs_len * sizeof (int)))
__CPROVER_ensures (CURR->order != NULL)
__CPROVER_ensures (GH_ALL8 (ORD_UNSET) && gh_stops == __CPROVER_old (gh_stops) + 1)
;

/* ---- the body of the loop for one delivered rule ---- */
void rg_rule_c (const char *lhs, const char **rhs, const char *anode, int anode_cost, int *transl, struct symb **start_io)
__CPROVER_requires (grammar == gh_g && grammar->undefined_p == 1 && rules_ptr != NULL && lhs != NULL && __CPROVER_is_fresh (start_io, sizeof (*start_io)))
__CPROVER_requires (gh_lhs == lhs && gh_rhs0 == rhs && gh_anode == anode && gh_cost == anode_cost && gh_transl == transl)              /* (the harness passes the very pointers it built) */
__CPROVER_requires (gh_first == (grammar->axiom == NULL) && (grammar->axiom == NULL) == (grammar->end_marker == NULL))
__CPROVER_requires (gh_nfind == 0 && gh_nadd_nt == 0 && gh_nadd_t == 0 && gh_ns_calls == 0 && gh_nsa == 0 && gh_stops == 0 && gh_lhs_term == 0)
__CPROVER_assigns (grammar->axiom, grammar->end_marker, *start_io, rules_ptr->curr_rule, gh_nfind, gh_fr_arg, gh_fr_hit, gh_fr_term, gh_fr_ax, gh_fr_em, gh_lhs_term, gh_cur_sym, gh_cur_lhs,
                   gh_nadd_nt, gh_nadd_t, gh_ns_calls, gh_nsa, gh_stops, gh_sr, gh_err_code)
/* normal end: none of the rule-level defects is present in what was delivered ... */
__CPROVER_ensures (gh_lhs_term == 0)                                                                   /* the left-hand side is not a terminal */
__CPROVER_ensures (anode == NULL || anode_cost >= 0)
__CPROVER_ensures (!(anode == NULL && transl != NULL && transl[0] >= 0 && transl[1] >= 0))             /* several translated symbols need an abstract node */
/* every translation entry names a right-hand side position (and is the only one naming it: order[] is a function) or is `-' */
__CPROVER_ensures ((transl != NULL && 0 <= gh_t && gh_t < gh_tl) ==> (transl[gh_t] == gh_tv[gh_t] && (transl[gh_t] < gh_rl ? CURR->order[transl[gh_t]] == gh_t : transl[gh_t] == YAEP_NIL_TRANSLATION_NUMBER)))
/* ... and the rule record describes it */
__CPROVER_ensures ((size_t) CURR->lhs == gh_cur_lhs && CURR->rhs_len == gh_rl && gh_nsa == gh_rl + (gh_first ? 2 : 0) && CURR->anode_cost == (anode != NULL ? anode_cost : 0) && (anode == NULL) == (CURR->anode == NULL))
__CPROVER_ensures (CURR->trans_len == (transl != NULL ? GH_CNT (gh_tl) : 0))
/* first rule: $S and $eof are made, its left-hand side is the start symbol, the start rule `$S : <start> $eof' translates to its first symbol */
__CPROVER_ensures (gh_first ? (grammar->axiom != NULL && grammar->end_marker != NULL && grammar->axiom != grammar->end_marker && (size_t) *start_io == gh_cur_lhs && gh_ns_calls == 2 && gh_stops == 2 && gh_nadd_t == 1)
                            : (grammar->axiom == __CPROVER_old (grammar->axiom) && grammar->end_marker == __CPROVER_old (grammar->end_marker) && *start_io == __CPROVER_old (*start_io) && gh_ns_calls == 1 && gh_stops == 1 && gh_nadd_t == 0))
__CPROVER_ensures (!gh_first || (gh_sr->lhs == grammar->axiom && gh_sr->rhs_len == 2 && gh_sr->order[0] == 0 && gh_sr->order[1] == -1 && gh_sr->trans_len == 1 && gh_sr->anode == NULL))
;

/* names are strings inside one buffer (a name the contracts look into must point somewhere) */
static char namebuf[128];        /* (more than 64 bytes: not split into one symbol per byte) */
int cex_rl, cex_tl, cex_anode, cex_cost, cex_has_tr;       /* (trace markers read by the counterexample replay) */
#define RHS_NAME(k) if ((k) < gh_rl) { size_t o; __CPROVER_assume (o <= 11); rhs[k] = namebuf + o; }
#define TR_NONNEG(k) ((k) >= gh_tl || tr[k] >= 0)
void h_rg_rule (void)
{
  const char *lhs, *an; const char **rhs; int *tr; int cost; struct symb **start_io; _Bool has_tr, first;
  HAVOC (gh_rl); HAVOC (gh_tl); HAVOC (gh_t); HAVOC (gh_fr_hit); HAVOC (gh_fr_term); HAVOC (gh_fr_ax); HAVOC (gh_fr_em); HAVOC (gh_fr_arg); HAVOC (gh_cur_sym); HAVOC (gh_cur_lhs); HAVOC (gh_sr); HAVOC (gh_err_code);
  grammar = malloc (sizeof (struct grammar)); __CPROVER_assume (grammar != NULL); gh_g = grammar; grammar->undefined_p = 1;
  rules_ptr = malloc (sizeof (struct rules)); __CPROVER_assume (rules_ptr != NULL);
  gh_sym_a = malloc (sizeof (struct symb)); __CPROVER_assume (gh_sym_a != NULL);
  if (first) grammar->axiom = grammar->end_marker = NULL;
  else { grammar->axiom = malloc (sizeof (struct symb)); grammar->end_marker = malloc (sizeof (struct symb)); __CPROVER_assume (grammar->axiom != NULL && grammar->end_marker != NULL);
         __CPROVER_assume (!grammar->axiom->term_p && grammar->end_marker->term_p); }
  __CPROVER_assume (0 <= gh_rl && gh_rl <= RLMAX && 0 <= gh_tl && gh_tl <= TLMAX);
  rhs = malloc (((size_t) gh_rl + 1) * sizeof (char *)); __CPROVER_assume (rhs != NULL); RHS_NAME (0) RHS_NAME (1) RHS_NAME (2) RHS_NAME (3) RHS_NAME (4) RHS_NAME (5) RHS_NAME (6) RHS_NAME (7) rhs[gh_rl] = NULL;
  tr = malloc (((size_t) gh_tl + 1) * sizeof (int)); __CPROVER_assume (tr != NULL); __CPROVER_assume (GH_ALL8 (TR_NONNEG)); __CPROVER_assume (tr[gh_tl] < 0);
  { size_t o; char c[128]; __CPROVER_assume (o <= 11); __CPROVER_array_copy (namebuf, c); namebuf[127] = '\0'; lhs = namebuf + o; }
#define TV(k) gh_tv[k] = ((k) < gh_tl ? tr[k] : -1);
  TV (0) TV (1) TV (2) TV (3) TV (4) TV (5) TV (6) TV (7)
  gh_lhs = lhs; gh_rhs0 = rhs; gh_anode = an; gh_cost = cost; gh_transl = has_tr ? tr : NULL; gh_first = first;
  gh_nfind = gh_nadd_nt = gh_nadd_t = gh_ns_calls = gh_nsa = gh_stops = gh_lhs_term = 0;
  cex_rl = gh_rl; cex_tl = gh_tl; cex_anode = an != NULL; cex_cost = cost; cex_has_tr = has_tr;
  verif_rg_rule (lhs, rhs, an, cost, gh_transl, start_io);
  if (first) VACUITY_CANARY_N ("first rule"); else VACUITY_CANARY_N ("later rule");
  if (has_tr && gh_tl >= 2 && an != NULL) VACUITY_CANARY_N ("translation with abstract node");
  if (gh_rl == RLMAX && rules_ptr->curr_rule->trans_len == 3) VACUITY_CANARY_N ("longest right-hand side, three children");
}
