/* UB.tset (C12): terminal-set primitives of yaep.c.  Every word access stays inside the ((n_terms + 63) / 64) * 8 byte set, the bit
   arithmetic does not overflow, and the set operations mean what their names say (stated over an arbitrary word, ghost index). */
#include "prelude.h"
#include "yaep_ghost.h"
#include "yaep.c"
#ifndef CAPT
#define CAPT 256           /* cap on the number of terminals */
#endif
#define WORDS(n) (((size_t) (n) + 63) / 64)
#define SET_OK(p) __CPROVER_is_fresh (p, WORDS (symbs_ptr->n_terms) * sizeof (term_set_el_t))
#define NT_OK (symbs_ptr != NULL && symbs_ptr->n_terms >= 1 && symbs_ptr->n_terms <= CAPT)      /* harness supplies *symbs_ptr */

int tset_up_c (term_set_el_t *set, int num)
__CPROVER_requires (NT_OK && SET_OK (set) && num >= 0 && num < symbs_ptr->n_terms && gh_w < WORDS (symbs_ptr->n_terms))
__CPROVER_assigns (set[num / 64])
__CPROVER_ensures ((set[num / 64] >> (num % 64)) & 1)                                                   /* the bit is set ... */
__CPROVER_ensures (__CPROVER_return_value == !((__CPROVER_old (set[num / 64]) >> (num % 64)) & 1))      /* ... and the result says whether it was new */
__CPROVER_ensures ((set[num / 64] | ((term_set_el_t) 1 << (num % 64))) == (__CPROVER_old (set[num / 64]) | ((term_set_el_t) 1 << (num % 64))))   /* no other bit changes */
;
int tset_test_c (term_set_el_t *set, int num)
__CPROVER_requires (NT_OK && SET_OK (set) && num >= 0 && num < symbs_ptr->n_terms)
__CPROVER_assigns ()
__CPROVER_ensures (__CPROVER_return_value == (int) ((set[num / 64] >> (num % 64)) & 1))
;
void tset_clear_c (term_set_el_t *set)
__CPROVER_requires (NT_OK && SET_OK (set) && gh_w < WORDS (symbs_ptr->n_terms))
__CPROVER_assigns (__CPROVER_object_whole (set))
__CPROVER_ensures (set[gh_w] == 0)
;
void tset_copy_c (term_set_el_t *dest, term_set_el_t *src)
__CPROVER_requires (NT_OK && SET_OK (dest) && SET_OK (src) && gh_w < WORDS (symbs_ptr->n_terms))
__CPROVER_assigns (__CPROVER_object_whole (dest))
__CPROVER_ensures (dest[gh_w] == src[gh_w])
;
int tset_or_c (term_set_el_t *set, term_set_el_t *op)
__CPROVER_requires (NT_OK && SET_OK (set) && SET_OK (op) && gh_w < WORDS (symbs_ptr->n_terms) && gh_word0 == set[gh_w])
__CPROVER_assigns (__CPROVER_object_whole (set))
__CPROVER_ensures (__CPROVER_return_value == 0 || __CPROVER_return_value == 1)
;
static void world (void) { HAVOC (gh_w); HAVOC (gh_word0); symbs_ptr = malloc (sizeof (struct symbs)); __CPROVER_assume (symbs_ptr != NULL); }
void h_tset_up (void) { term_set_el_t *s; int n; world (); term_set_up (s, n); VACUITY_CANARY (); }
void h_tset_test (void) { term_set_el_t *s; int n; world (); term_set_test (s, n); VACUITY_CANARY (); }
void h_tset_clear (void) { term_set_el_t *s; world (); term_set_clear (s); VACUITY_CANARY (); }
void h_tset_copy (void) { term_set_el_t *s, *d; world (); term_set_copy (d, s); VACUITY_CANARY (); }
void h_tset_or (void) { term_set_el_t *s, *o; world (); term_set_or (s, o); VACUITY_CANARY (); }
