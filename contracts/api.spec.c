/* API.set*, API.err: setters and error accessors (C15, C09 clamp).  Loop-free: mode L. */
#include "prelude.h"
#include "yaep_ghost.h"
#include "yaep.c"
#ifdef VERIF_DFCC
void verif_error_exit (int code) { __CPROVER_assume (0); }
#endif

/* frame: exactly the one field; every other byte of *g is proved unchanged by the assigns clause */
int set_lookahead_c (struct grammar *g, int level)
__CPROVER_requires (__CPROVER_is_fresh (g, sizeof (*g)))
__CPROVER_assigns (g->lookahead_level)
__CPROVER_ensures (__CPROVER_return_value == __CPROVER_old (g->lookahead_level))
__CPROVER_ensures (g->lookahead_level == (level < 0 ? 0 : level > 2 ? 2 : level))
__CPROVER_ensures (0 <= g->lookahead_level && g->lookahead_level <= 2)
;
int set_debug_c (struct grammar *g, int level)
__CPROVER_requires (__CPROVER_is_fresh (g, sizeof (*g)))
__CPROVER_assigns (g->debug_level)
__CPROVER_ensures (__CPROVER_return_value == __CPROVER_old (g->debug_level) && g->debug_level == level)
;
int set_one_parse_c (struct grammar *g, int flag)
__CPROVER_requires (__CPROVER_is_fresh (g, sizeof (*g)))
__CPROVER_assigns (g->one_parse_p)
__CPROVER_ensures (__CPROVER_return_value == __CPROVER_old (g->one_parse_p) && g->one_parse_p == flag)
;
int set_cost_c (struct grammar *g, int flag)
__CPROVER_requires (__CPROVER_is_fresh (g, sizeof (*g)))
__CPROVER_assigns (g->cost_p)
__CPROVER_ensures (__CPROVER_return_value == __CPROVER_old (g->cost_p) && g->cost_p == flag)
;
int set_recovery_c (struct grammar *g, int flag)
__CPROVER_requires (__CPROVER_is_fresh (g, sizeof (*g)))
__CPROVER_assigns (g->error_recovery_p)
__CPROVER_ensures (__CPROVER_return_value == __CPROVER_old (g->error_recovery_p) && g->error_recovery_p == flag)
;
int set_match_c (struct grammar *g, int n)
__CPROVER_requires (__CPROVER_is_fresh (g, sizeof (*g)))
__CPROVER_assigns (g->recovery_token_matches)
__CPROVER_ensures (__CPROVER_return_value == __CPROVER_old (g->recovery_token_matches) && g->recovery_token_matches == n)
;
int error_code_c (struct grammar *g)
__CPROVER_requires (__CPROVER_is_fresh (g, sizeof (*g)))
__CPROVER_assigns ()
__CPROVER_ensures (__CPROVER_return_value == g->error_code)
;
const char *error_message_c (struct grammar *g)
__CPROVER_requires (__CPROVER_is_fresh (g, sizeof (*g)))
__CPROVER_assigns ()
__CPROVER_ensures (__CPROVER_return_value == g->error_message)
;

void h_set_lookahead (void) { struct grammar *g; int v; yaep_set_lookahead_level (g, v); VACUITY_CANARY (); }
void h_set_debug (void) { struct grammar *g; int v; yaep_set_debug_level (g, v); VACUITY_CANARY (); }
void h_set_one_parse (void) { struct grammar *g; int v; yaep_set_one_parse_flag (g, v); VACUITY_CANARY (); }
void h_set_cost (void) { struct grammar *g; int v; yaep_set_cost_flag (g, v); VACUITY_CANARY (); }
void h_set_recovery (void) { struct grammar *g; int v; yaep_set_error_recovery_flag (g, v); VACUITY_CANARY (); }
void h_set_match (void) { struct grammar *g; int v; yaep_set_recovery_match (g, v); VACUITY_CANARY (); }
void h_error_code (void) { struct grammar *g; yaep_error_code (g); VACUITY_CANARY (); }
void h_error_message (void) { struct grammar *g; yaep_error_message (g); VACUITY_CANARY (); }
