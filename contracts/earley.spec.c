/* E.set.add_start (C12, Earley core): set_new_add_start_sit - the primitive that appends one (situation, distance) pair to the set being
   formed - under contract on the real object stacks.  The two parallel arrays live on top of two object stacks; either may move to a new
   segment while it grows.  Proved: both arrays grow by exactly one element holding the pair, everything that was in them stays (ghost byte
   per array), new_sits / new_dists are refreshed to where the arrays now are, the count goes up by one, all writes stay inside the stacks. */
#include "prelude.h"
#include "yaep_ghost.h"
#include "objstack.h"
size_t gh_newlen;
size_t gh_k, gh_k2; char gh_byte, gh_byte2;          /* ghost byte of the situation array / of the distance array before the call */
size_t gh_wi; struct sit *gh_word;                   /* ghost ELEMENT of the situation array before the call */
#define NDEBUG 1
#include "yaep.c"
#include "alloc_model.h"
#ifndef CAP
#define CAP 8
#endif
#ifndef NCAP
#define NCAP 3
#endif
#ifndef DMAX
#define DMAX 64
#endif
#ifndef VCAP
#define VCAP 3
#endif
#define HDR (sizeof (struct _os_segment))
#define PAY (offsetof (struct _os_segment, os_segment_contest))
#define OFF(p) __CPROVER_POINTER_OFFSET (p)
#define SEGB(o) ((char *) (o)->os_current_segment)
#define TOPLEN(o) ((size_t) (OFF ((o)->os_top_object_free) - OFF ((o)->os_top_object_start)))
#define SOS (&set_sits_os)
#define DOS (&set_dists_os)
/* what OS.top.expand proves about _OS_expand_memory (objstack.spec.c: os_expand_use_c), for either of the two stacks: a fresh, larger segment whose payload starts
   with the top object: same length, same bytes (ghost byte of that stack) */
void os_expand_two_c (os_t *os, size_t additional_length)
__CPROVER_requires (os == SOS || os == DOS)
__CPROVER_requires (os == SOS ? (gh_k < TOPLEN (os) ==> gh_byte == os->os_top_object_start[gh_k]) : (gh_k2 < TOPLEN (os) ==> gh_byte2 == os->os_top_object_start[gh_k2]))
__CPROVER_requires (os != SOS || gh_wi >= TOPLEN (os) / sizeof (struct sit *) || gh_word == ((struct sit **) os->os_top_object_start)[gh_wi])
__CPROVER_assigns (os->os_current_segment, os->os_top_object_start, os->os_top_object_free, os->os_boundary, gh_newlen)
__CPROVER_ensures (gh_newlen >= OS_DEFAULT_SEGMENT_LENGTH && gh_newlen <= 2 * CAP + OS_DEFAULT_SEGMENT_LENGTH + NCAP * 16
                   && gh_newlen >= (size_t) (OFF (__CPROVER_old (os->os_top_object_free)) - OFF (__CPROVER_old (os->os_top_object_start))) + additional_length)
__CPROVER_ensures (__CPROVER_is_fresh (os->os_current_segment, gh_newlen + HDR))
__CPROVER_ensures (__CPROVER_pointer_in_range_dfcc (SEGB (os) + PAY, os->os_top_object_start, SEGB (os) + PAY))
__CPROVER_ensures (__CPROVER_pointer_in_range_dfcc (SEGB (os) + PAY + (OFF (__CPROVER_old (os->os_top_object_free)) - OFF (__CPROVER_old (os->os_top_object_start))), os->os_top_object_free,
                                                    SEGB (os) + PAY + (OFF (__CPROVER_old (os->os_top_object_free)) - OFF (__CPROVER_old (os->os_top_object_start)))))
__CPROVER_ensures (__CPROVER_pointer_in_range_dfcc (SEGB (os) + PAY + gh_newlen, os->os_boundary, SEGB (os) + PAY + gh_newlen))
__CPROVER_ensures (os == SOS ? (gh_k < TOPLEN (os) ==> os->os_top_object_start[gh_k] == gh_byte) : (gh_k2 < TOPLEN (os) ==> os->os_top_object_start[gh_k2] == gh_byte2))
__CPROVER_ensures (os != SOS || gh_wi >= TOPLEN (os) / sizeof (struct sit *) || ((struct sit **) os->os_top_object_start)[gh_wi] == gh_word)
;
void add_start_c (struct sit *sit, int dist)
__CPROVER_requires (new_n_start_sits >= 0 && new_n_start_sits < NCAP)
__CPROVER_requires (TOPLEN (SOS) == (size_t) new_n_start_sits * sizeof (struct sit *) && TOPLEN (DOS) == (size_t) new_n_start_sits * sizeof (int))      /* the two top objects are the parallel arrays */
__CPROVER_requires ((gh_k < TOPLEN (SOS) ==> gh_byte == SOS->os_top_object_start[gh_k]) && (gh_k2 < TOPLEN (DOS) ==> gh_byte2 == DOS->os_top_object_start[gh_k2]))
__CPROVER_requires (gh_wi >= TOPLEN (SOS) / sizeof (struct sit *) || gh_word == ((struct sit **) SOS->os_top_object_start)[gh_wi])
__CPROVER_assigns (new_dists, new_sits, new_n_start_sits, set_dists_os, set_sits_os, gh_newlen, __CPROVER_object_from (SOS->os_top_object_free), __CPROVER_object_from (DOS->os_top_object_free))
__CPROVER_ensures (new_n_start_sits == __CPROVER_old (new_n_start_sits) + 1)
__CPROVER_ensures ((char *) new_sits == SOS->os_top_object_start && (char *) new_dists == DOS->os_top_object_start)
__CPROVER_ensures (TOPLEN (SOS) == (size_t) new_n_start_sits * sizeof (struct sit *) && TOPLEN (DOS) == (size_t) new_n_start_sits * sizeof (int))
__CPROVER_ensures (new_sits[new_n_start_sits - 1] == sit && new_dists[new_n_start_sits - 1] == dist)
__CPROVER_ensures ((gh_k < ((size_t) new_n_start_sits - 1) * sizeof (struct sit *) ==> ((char *) new_sits)[gh_k] == gh_byte)
                   && (gh_k2 < ((size_t) new_n_start_sits - 1) * sizeof (int) ==> ((char *) new_dists)[gh_k2] == gh_byte2))
;
static void mk_top (os_t *os, size_t len)
{ size_t L, so; __CPROVER_assume (L >= 1 && L <= CAP + NCAP * 16 && so >= PAY && so <= PAY + L && so % _OS_ALIGNMENT == 0 && so + len <= PAY + L);
  os->os_current_segment = malloc (L + HDR); __CPROVER_assume (os->os_current_segment != NULL);
  os->os_top_object_start = SEGB (os) + so; os->os_top_object_free = os->os_top_object_start + len; os->os_boundary = SEGB (os) + PAY + L;
  HAVOC (os->os_alloc); __CPROVER_assume (os->os_alloc != NULL); os->initial_segment_length = L; }
void h_add_start (void)
{
  struct sit *s; int d, n;
  HAVOC (gh_newlen); HAVOC (gh_k); HAVOC (gh_k2); HAVOC (gh_byte); HAVOC (gh_byte2); HAVOC (gh_wi); HAVOC (gh_word);
  __CPROVER_assume (n >= 0 && n < NCAP); new_n_start_sits = n; new_set_ready_p = 0;
  mk_top (SOS, (size_t) n * sizeof (struct sit *)); mk_top (DOS, (size_t) n * sizeof (int));
  if (gh_k < TOPLEN (SOS)) gh_byte = SOS->os_top_object_start[gh_k];
  if (gh_k2 < TOPLEN (DOS)) gh_byte2 = DOS->os_top_object_start[gh_k2];
  if (gh_wi < TOPLEN (SOS) / sizeof (struct sit *)) gh_word = ((struct sit **) SOS->os_top_object_start)[gh_wi];
  set_new_add_start_sit (s, d);
  if (n == 0) VACUITY_CANARY_N ("first pair"); else VACUITY_CANARY_N ("later pair");
}

/* E.set.add_initial: set_new_add_initial_sit - appends a non-start (initial) situation unless it is already among the non-start situations of the set being formed */
void add_initial_c (struct sit *sit)
__CPROVER_requires (new_core != NULL && new_n_start_sits >= 0 && new_n_start_sits <= new_core->n_sits && new_core->n_sits < NCAP)
__CPROVER_requires (TOPLEN (SOS) == (size_t) new_core->n_sits * sizeof (struct sit *) && (char *) new_sits == SOS->os_top_object_start && new_core->sits == new_sits)
__CPROVER_requires (gh_k < TOPLEN (SOS) ==> gh_byte == SOS->os_top_object_start[gh_k])
__CPROVER_requires (gh_wi == gh_si && (gh_wi >= TOPLEN (SOS) / sizeof (struct sit *) || gh_word == ((struct sit **) SOS->os_top_object_start)[gh_wi]))
__CPROVER_assigns (new_sits, new_core->sits, new_core->n_sits, set_sits_os, gh_newlen, __CPROVER_object_from (SOS->os_top_object_free))
/* either nothing changes (the situation is there already) ... */
__CPROVER_ensures (new_core->n_sits == __CPROVER_old (new_core->n_sits) || new_core->n_sits == __CPROVER_old (new_core->n_sits) + 1)
__CPROVER_ensures (new_core->n_sits != __CPROVER_old (new_core->n_sits) || (new_sits == __CPROVER_old (new_sits) && TOPLEN (SOS) == (size_t) new_core->n_sits * sizeof (struct sit *)))
/* ... or it is appended: it was not among the non-start situations (ghost index), the array grew by one element holding it, the rest stays, the pointers are refreshed */
__CPROVER_ensures (new_core->n_sits == __CPROVER_old (new_core->n_sits)
                   || ((char *) new_sits == SOS->os_top_object_start && new_core->sits == new_sits && TOPLEN (SOS) == (size_t) new_core->n_sits * sizeof (struct sit *)
                       && new_sits[new_core->n_sits - 1] == sit
                       && ((gh_si >= (size_t) new_n_start_sits && gh_si < (size_t) new_core->n_sits - 1) ==> new_sits[gh_si] != sit)))
__CPROVER_ensures (gh_k < (size_t) __CPROVER_old (new_core->n_sits) * sizeof (struct sit *) ==> ((char *) new_sits)[gh_k] == gh_byte)
;
void h_add_initial (void)
{
  struct sit *s; int n, ns;
  HAVOC (gh_newlen); HAVOC (gh_k); HAVOC (gh_byte); HAVOC (gh_si); HAVOC (gh_word); gh_wi = gh_si;
  new_core = malloc (sizeof (struct set_core)); __CPROVER_assume (new_core != NULL);
  __CPROVER_assume (n >= 0 && n < NCAP && ns >= 0 && ns <= n); new_core->n_sits = n; new_n_start_sits = ns; new_set_ready_p = 1;
  mk_top (SOS, (size_t) n * sizeof (struct sit *)); new_sits = (struct sit **) SOS->os_top_object_start; new_core->sits = new_sits;
  if (gh_k < TOPLEN (SOS)) gh_byte = SOS->os_top_object_start[gh_k];
  if (gh_wi < TOPLEN (SOS) / sizeof (struct sit *)) gh_word = ((struct sit **) SOS->os_top_object_start)[gh_wi];
  set_new_add_initial_sit (s);
  if (new_core->n_sits == n) VACUITY_CANARY_N ("already there"); else VACUITY_CANARY_N ("appended");
}

/* E.set.add_nonstart: set_add_new_nonstart_sit - appends a (situation, parent index) pair to the non-start part unless the pair is there already.
   Call-site precondition (add_derived_nonstart_sits runs before any initial situation is added): n_all_dists == n_sits.
   The parent-index array has no entries for the start situations; the code keeps a pointer biased by -n_start_sits (F34: that pointer is
   formed outside the object when there are start situations; every access through it is inside). */
#define POS (&set_parent_indexes_os)
size_t gh_k3; char gh_byte3;        /* ghost byte of the parent-index array before the call */
void os_expand_three_c (os_t *os, size_t additional_length)
__CPROVER_requires (os == SOS || os == POS)
__CPROVER_requires (os == SOS ? (gh_k < TOPLEN (os) ==> gh_byte == os->os_top_object_start[gh_k]) : (gh_k3 < TOPLEN (os) ==> gh_byte3 == os->os_top_object_start[gh_k3]))
__CPROVER_requires (os != SOS || gh_wi >= TOPLEN (os) / sizeof (struct sit *) || gh_word == ((struct sit **) os->os_top_object_start)[gh_wi])
__CPROVER_assigns (os->os_current_segment, os->os_top_object_start, os->os_top_object_free, os->os_boundary, gh_newlen)
__CPROVER_ensures (gh_newlen >= OS_DEFAULT_SEGMENT_LENGTH && gh_newlen <= 2 * CAP + OS_DEFAULT_SEGMENT_LENGTH + NCAP * 16
                   && gh_newlen >= (size_t) (OFF (__CPROVER_old (os->os_top_object_free)) - OFF (__CPROVER_old (os->os_top_object_start))) + additional_length)
__CPROVER_ensures (__CPROVER_is_fresh (os->os_current_segment, gh_newlen + HDR))
__CPROVER_ensures (__CPROVER_pointer_in_range_dfcc (SEGB (os) + PAY, os->os_top_object_start, SEGB (os) + PAY))
__CPROVER_ensures (__CPROVER_pointer_in_range_dfcc (SEGB (os) + PAY + (OFF (__CPROVER_old (os->os_top_object_free)) - OFF (__CPROVER_old (os->os_top_object_start))), os->os_top_object_free,
                                                    SEGB (os) + PAY + (OFF (__CPROVER_old (os->os_top_object_free)) - OFF (__CPROVER_old (os->os_top_object_start)))))
__CPROVER_ensures (__CPROVER_pointer_in_range_dfcc (SEGB (os) + PAY + gh_newlen, os->os_boundary, SEGB (os) + PAY + gh_newlen))
__CPROVER_ensures (os == SOS ? (gh_k < TOPLEN (os) ==> os->os_top_object_start[gh_k] == gh_byte) : (gh_k3 < TOPLEN (os) ==> os->os_top_object_start[gh_k3] == gh_byte3))
__CPROVER_ensures (os != SOS || gh_wi >= TOPLEN (os) / sizeof (struct sit *) || ((struct sit **) os->os_top_object_start)[gh_wi] == gh_word)
;
#define NNS ((size_t) (new_core->n_sits - new_n_start_sits))        /* number of non-start situations */
void add_nonstart_c (struct sit *sit, int parent)
__CPROVER_requires (new_core != NULL && new_n_start_sits >= 0 && new_n_start_sits <= new_core->n_sits && new_core->n_sits < NCAP && new_core->n_all_dists == new_core->n_sits
                    && n_parent_indexes >= 0 && n_parent_indexes < 1000000)
__CPROVER_requires (TOPLEN (SOS) == (size_t) new_core->n_sits * sizeof (struct sit *) && (char *) new_sits == SOS->os_top_object_start && new_core->sits == new_sits)
__CPROVER_requires (TOPLEN (POS) == NNS * sizeof (int) && (NNS == 0 || (char *) (new_core->parent_indexes + new_n_start_sits) == POS->os_top_object_start))
__CPROVER_requires ((gh_k < TOPLEN (SOS) ==> gh_byte == SOS->os_top_object_start[gh_k]) && (gh_k3 < TOPLEN (POS) ==> gh_byte3 == POS->os_top_object_start[gh_k3]))
__CPROVER_requires (gh_wi >= TOPLEN (SOS) / sizeof (struct sit *) || gh_word == ((struct sit **) SOS->os_top_object_start)[gh_wi])
__CPROVER_assigns (new_sits, new_core->sits, new_core->n_sits, new_core->n_all_dists, new_core->parent_indexes, n_parent_indexes, set_sits_os, set_parent_indexes_os, gh_newlen,
                   __CPROVER_object_from (SOS->os_top_object_free), __CPROVER_object_from (POS->os_top_object_free))
__CPROVER_ensures (new_core->n_sits == __CPROVER_old (new_core->n_sits) || new_core->n_sits == __CPROVER_old (new_core->n_sits) + 1)
__CPROVER_ensures (new_core->n_all_dists == new_core->n_sits)
/* unchanged when the pair is there already */
__CPROVER_ensures (new_core->n_sits != __CPROVER_old (new_core->n_sits) || (new_sits == __CPROVER_old (new_sits) && TOPLEN (SOS) == (size_t) new_core->n_sits * sizeof (struct sit *) && TOPLEN (POS) == NNS * sizeof (int)))
/* appended: both arrays grew by one element holding the pair, pointers refreshed (the parent-index pointer biased by the number of start situations) */
__CPROVER_ensures (new_core->n_sits == __CPROVER_old (new_core->n_sits)
                   || ((char *) new_sits == SOS->os_top_object_start && new_core->sits == new_sits && TOPLEN (SOS) == (size_t) new_core->n_sits * sizeof (struct sit *)
                       && TOPLEN (POS) == NNS * sizeof (int) && (char *) (new_core->parent_indexes + new_n_start_sits) == POS->os_top_object_start
                       && new_sits[new_core->n_sits - 1] == sit && new_core->parent_indexes[new_core->n_sits - 1] == parent && n_parent_indexes == __CPROVER_old (n_parent_indexes) + 1))
__CPROVER_ensures (gh_k < (size_t) __CPROVER_old (new_core->n_sits) * sizeof (struct sit *) ==> ((char *) new_sits)[gh_k] == gh_byte)
__CPROVER_ensures (gh_k3 < ((size_t) __CPROVER_old (new_core->n_sits) - (size_t) new_n_start_sits) * sizeof (int) ==> POS->os_top_object_start[gh_k3] == gh_byte3)
;
void h_add_nonstart (void)
{
  struct sit *s; int n, ns, par;
  HAVOC (gh_newlen); HAVOC (gh_k); HAVOC (gh_byte); HAVOC (gh_k3); HAVOC (gh_byte3); HAVOC (gh_wi); HAVOC (gh_word); HAVOC (gh_si); HAVOC (n_parent_indexes);
  __CPROVER_assume (n_parent_indexes >= 0 && n_parent_indexes < 1000000);
  new_core = malloc (sizeof (struct set_core)); __CPROVER_assume (new_core != NULL);
  __CPROVER_assume (n >= 0 && n < NCAP && ns >= 0 && ns <= n); new_core->n_sits = new_core->n_all_dists = n; new_n_start_sits = ns; new_set_ready_p = 1;
  mk_top (SOS, (size_t) n * sizeof (struct sit *)); new_sits = (struct sit **) SOS->os_top_object_start; new_core->sits = new_sits;
  mk_top (POS, (size_t) (n - ns) * sizeof (int));
  /* (the biased pointer of the data structure is formed here exactly as the code forms it; the check that reports F34 in the code is switched off for this one harness statement) */
#pragma CPROVER check push
#pragma CPROVER check disable "pointer-overflow"
  new_core->parent_indexes = n == ns ? NULL : (int *) POS->os_top_object_start - ns;
#pragma CPROVER check pop
  if (gh_k < TOPLEN (SOS)) gh_byte = SOS->os_top_object_start[gh_k];
  if (gh_k3 < TOPLEN (POS)) gh_byte3 = POS->os_top_object_start[gh_k3];
  if (gh_wi < TOPLEN (SOS) / sizeof (struct sit *)) gh_word = ((struct sit **) SOS->os_top_object_start)[gh_wi];
  set_add_new_nonstart_sit (s, par);
  if (new_core->n_sits == n) VACUITY_CANARY_N ("pair already there"); else VACUITY_CANARY_N ("pair appended");
}

/* E.set.dists_hash: setup_set_dists_hash - the hash over the distance vector of a set: reads exactly the n_start_sits distances, nothing else;
   a set without start situations has no vector (NULL) and no pointer arithmetic is done on it (F29); only the hash field is written */
void dists_hash_c (hash_table_entry_t s)
__CPROVER_requires (__CPROVER_is_fresh (s, sizeof (struct set)) && __CPROVER_is_fresh (((struct set *) s)->core, sizeof (struct set_core)))
__CPROVER_requires (((struct set *) s)->core->n_start_sits >= 0 && (size_t) ((struct set *) s)->core->n_start_sits == gh_dn && gh_dn <= DMAX)
__CPROVER_requires (gh_dn == 0 ? ((struct set *) s)->dists == NULL : __CPROVER_is_fresh (((struct set *) s)->dists, gh_dn * sizeof (int)))
__CPROVER_assigns (((struct set *) s)->dists_hash)
__CPROVER_ensures (gh_dn != 0 || ((struct set *) s)->dists_hash == jauquet_prime_mod32)
__CPROVER_ensures (gh_dn != 1 || ((struct set *) s)->dists_hash == jauquet_prime_mod32 * hash_shift + (unsigned) ((struct set *) s)->dists[0])
;
void h_dists_hash (void) { hash_table_entry_t s; HAVOC (gh_dn); setup_set_dists_hash (s); if (gh_dn == 0) VACUITY_CANARY_N ("no distances"); else VACUITY_CANARY_N ("some distances"); }
/* E.set.new_start: set_new_start resets exactly the six variables that describe the set being formed */
void new_start_c (void)
__CPROVER_assigns (new_set, new_core, new_set_ready_p, new_n_start_sits, new_sits, new_dists)
__CPROVER_ensures (new_set == NULL && new_core == NULL && new_set_ready_p == 0 && new_n_start_sits == 0 && new_sits == NULL && new_dists == NULL)
;
void h_new_start (void) { HAVOC (new_set); HAVOC (new_core); HAVOC (new_set_ready_p); HAVOC (new_n_start_sits); HAVOC (new_sits); HAVOC (new_dists); set_new_start (); VACUITY_CANARY (); }

/* E.vlo_array.expand (C17, C12): vlo_array_expand - hands out the next vlo of the array of vlos, creating one when the array is used up.
   Every memory request may fail and leave through the error exit of yaep_parse, whose clean-up (vlo_array_fin) deletes EVERY element of
   the array.  So at every request the array must consist of initialised elements only: that is the precondition of the two allocation
   contracts below (F33 broke it: the array was grown first and the new element created afterwards). */
#define VAL(v) ((size_t) (OFF ((v).vlo_free) - OFF ((v).vlo_start)))
size_t gh_ninit;                     /* number of elements of vlo_array, all of them initialised vlos */
size_t gh_vk2; char gh_vbyte;        /* ghost byte of the array before the call */
void *alloc_site_c (YaepAllocator *a, size_t n)
__CPROVER_requires (VAL (vlo_array) == gh_ninit * sizeof (vlo_t))            /* nothing uninitialised in the array while a request is pending */
__CPROVER_requires (n == 64)
__CPROVER_assigns ()
__CPROVER_ensures (__CPROVER_is_fresh (__CPROVER_return_value, n))
;
void vlo_grow_site_c (vlo_t *vlo, size_t additional_length)
__CPROVER_requires (vlo == &vlo_array && VAL (vlo_array) == gh_ninit * sizeof (vlo_t) && additional_length == sizeof (vlo_t))
__CPROVER_requires (gh_vk2 < VAL (vlo_array) ==> gh_vbyte == vlo_array.vlo_start[gh_vk2])
__CPROVER_assigns (vlo->vlo_start, vlo->vlo_free, vlo->vlo_boundary, gh_newlen)
__CPROVER_ensures (gh_newlen >= gh_ninit * sizeof (vlo_t) + additional_length && gh_newlen <= 4 * (VCAP + 1) * sizeof (vlo_t) + 64)
__CPROVER_ensures (__CPROVER_is_fresh (vlo->vlo_start, gh_newlen))
__CPROVER_ensures (__CPROVER_pointer_in_range_dfcc (vlo->vlo_start + gh_ninit * sizeof (vlo_t), vlo->vlo_free, vlo->vlo_start + gh_ninit * sizeof (vlo_t)))
__CPROVER_ensures (__CPROVER_pointer_in_range_dfcc (vlo->vlo_start + gh_newlen, vlo->vlo_boundary, vlo->vlo_start + gh_newlen))
__CPROVER_ensures (gh_vk2 < gh_ninit * sizeof (vlo_t) ==> vlo->vlo_start[gh_vk2] == gh_vbyte)
;
int vlo_array_expand_c (void)
__CPROVER_requires (VAL (vlo_array) == gh_ninit * sizeof (vlo_t) && gh_ninit <= VCAP && vlo_array_len >= 0 && (size_t) vlo_array_len <= gh_ninit && grammar != NULL)
__CPROVER_requires (gh_vk2 < VAL (vlo_array) ==> gh_vbyte == vlo_array.vlo_start[gh_vk2])
__CPROVER_assigns (vlo_array, vlo_array_len, gh_newlen, __CPROVER_object_whole (vlo_array.vlo_start))
__CPROVER_ensures (__CPROVER_return_value == __CPROVER_old (vlo_array_len) && vlo_array_len == __CPROVER_old (vlo_array_len) + 1)
/* the array consists of initialised vlos only, one more than before iff it was used up; the one handed out is empty */
__CPROVER_ensures (VAL (vlo_array) == ((size_t) __CPROVER_old (vlo_array_len) == gh_ninit ? gh_ninit + 1 : gh_ninit) * sizeof (vlo_t))
__CPROVER_ensures (((vlo_t *) vlo_array.vlo_start)[__CPROVER_return_value].vlo_start != NULL
                   && ((vlo_t *) vlo_array.vlo_start)[__CPROVER_return_value].vlo_free == ((vlo_t *) vlo_array.vlo_start)[__CPROVER_return_value].vlo_start)
/* the other elements are untouched (ghost byte outside the element handed out) */
__CPROVER_ensures ((gh_vk2 < gh_ninit * sizeof (vlo_t) && gh_vk2 / sizeof (vlo_t) != (size_t) __CPROVER_return_value) ==> vlo_array.vlo_start[gh_vk2] == gh_vbyte)
;
void h_vlo_array_expand (void)
{
  size_t cap, i; vlo_t *els;
  HAVOC (gh_newlen); HAVOC (gh_ninit); HAVOC (gh_vk2); HAVOC (gh_vbyte);
  grammar = malloc (sizeof (struct grammar)); __CPROVER_assume (grammar != NULL);
  __CPROVER_assume (gh_ninit <= VCAP && cap >= gh_ninit && cap <= VCAP + 1 && cap >= 1);
  els = malloc (cap * sizeof (vlo_t)); __CPROVER_assume (els != NULL);
  vlo_array.vlo_start = (char *) els; vlo_array.vlo_free = (char *) (els + gh_ninit); vlo_array.vlo_boundary = (char *) (els + cap); HAVOC (vlo_array.vlo_alloc); __CPROVER_assume (vlo_array.vlo_alloc != NULL);
  /* the element that may be handed out again is a real, initialised vlo */
  { int k; __CPROVER_assume (k >= 0 && (size_t) k <= gh_ninit); vlo_array_len = k;
    if ((size_t) k < gh_ninit) { els[k].vlo_start = malloc (64); __CPROVER_assume (els[k].vlo_start != NULL); els[k].vlo_boundary = els[k].vlo_start + 64; size_t f; __CPROVER_assume (f <= 64); els[k].vlo_free = els[k].vlo_start + f; } }
  if (gh_vk2 < VAL (vlo_array)) gh_vbyte = vlo_array.vlo_start[gh_vk2];
  vlo_array_expand ();
  if ((size_t) vlo_array_len - 1 == gh_ninit) VACUITY_CANARY_N ("array used up: a vlo is created"); else VACUITY_CANARY_N ("an existing vlo is reused");
}

/* ---- E.csv.new (C12): core_symb_vect_new - creates the (set core, symbol) record and takes two vlos from the array of vlos.
   vlo_array_expand may MOVE the array (its block is reallocated when the array is used up): the use-contract below lets it free the
   old block, so an element pointer held across the call is a dangling pointer (what the seeded change C12-m7 does).  ---- */
#ifndef VCAP2
#define VCAP2 6
#endif
#define COS (&core_symb_vect_os)
void os_expand_csv_c (os_t *os, size_t additional_length)
__CPROVER_requires (os == COS)
__CPROVER_assigns (os->os_current_segment, os->os_top_object_start, os->os_top_object_free, os->os_boundary, gh_newlen)
__CPROVER_ensures (gh_newlen >= OS_DEFAULT_SEGMENT_LENGTH && gh_newlen <= 2 * OS_DEFAULT_SEGMENT_LENGTH
                   && gh_newlen >= (size_t) (OFF (__CPROVER_old (os->os_top_object_free)) - OFF (__CPROVER_old (os->os_top_object_start))) + additional_length)
__CPROVER_ensures (__CPROVER_is_fresh (os->os_current_segment, gh_newlen + HDR))
__CPROVER_ensures (__CPROVER_pointer_in_range_dfcc (SEGB (os) + PAY, os->os_top_object_start, SEGB (os) + PAY))
__CPROVER_ensures (__CPROVER_pointer_in_range_dfcc (SEGB (os) + PAY + (OFF (__CPROVER_old (os->os_top_object_free)) - OFF (__CPROVER_old (os->os_top_object_start))), os->os_top_object_free,
                                                    SEGB (os) + PAY + (OFF (__CPROVER_old (os->os_top_object_free)) - OFF (__CPROVER_old (os->os_top_object_start)))))
__CPROVER_ensures (__CPROVER_pointer_in_range_dfcc (SEGB (os) + PAY + gh_newlen, os->os_boundary, SEGB (os) + PAY + gh_newlen))
;
struct core_symb_vect **csv_addr_get_c (struct set_core *set_core, struct symb *symb)
__CPROVER_assigns ()
__CPROVER_ensures (__CPROVER_is_fresh (__CPROVER_return_value, sizeof (struct core_symb_vect *)))
__CPROVER_ensures (*__CPROVER_return_value == NULL)
;
int vlo_array_expand_moves_c (void)
__CPROVER_requires (vlo_array_len >= 0 && vlo_array_len < VCAP2)
__CPROVER_assigns (vlo_array.vlo_start, vlo_array.vlo_free, vlo_array.vlo_boundary, vlo_array_len)
__CPROVER_frees (vlo_array.vlo_start)
__CPROVER_ensures (__CPROVER_return_value == __CPROVER_old (vlo_array_len) && vlo_array_len == __CPROVER_old (vlo_array_len) + 1)
__CPROVER_ensures (__CPROVER_is_fresh (vlo_array.vlo_start, VCAP2 * sizeof (vlo_t)))          /* the adversarial allocator: the array is somewhere else afterwards */
__CPROVER_ensures (__CPROVER_pointer_in_range_dfcc (vlo_array.vlo_start + vlo_array_len * sizeof (vlo_t), vlo_array.vlo_free, vlo_array.vlo_start + vlo_array_len * sizeof (vlo_t)))
__CPROVER_ensures (__CPROVER_pointer_in_range_dfcc (vlo_array.vlo_start + VCAP2 * sizeof (vlo_t), vlo_array.vlo_boundary, vlo_array.vlo_start + VCAP2 * sizeof (vlo_t)))
__CPROVER_ensures (__CPROVER_is_fresh (((vlo_t *) vlo_array.vlo_start)[__CPROVER_return_value].vlo_start, 64))      /* the element handed out is an empty vlo with its own block */
;
struct core_symb_vect *csv_new_c (struct set_core *set_core, struct symb *symb)
__CPROVER_requires (vlo_array_len >= 0 && vlo_array_len + 2 <= VCAP2)
__CPROVER_assigns (core_symb_vect_os.os_current_segment, core_symb_vect_os.os_top_object_start, core_symb_vect_os.os_top_object_free, core_symb_vect_os.os_boundary, gh_newlen,
                   __CPROVER_object_whole (core_symb_vect_os.os_top_object_start),
                   vlo_array.vlo_start, vlo_array.vlo_free, vlo_array.vlo_boundary, vlo_array_len,
                   new_core_symb_vect_vlo.vlo_free, __CPROVER_object_whole (new_core_symb_vect_vlo.vlo_start), n_core_symb_pairs)
__CPROVER_frees (vlo_array.vlo_start)
__CPROVER_ensures (__CPROVER_return_value->set_core == set_core && __CPROVER_return_value->symb == symb)
__CPROVER_ensures (__CPROVER_return_value->transitions.len == 0 && __CPROVER_return_value->reduces.len == 0)
__CPROVER_ensures (__CPROVER_return_value->transitions.intern == __CPROVER_old (vlo_array_len) && __CPROVER_return_value->reduces.intern == __CPROVER_old (vlo_array_len) + 1)
/* the reduce vector is the block of the element it names, in the array as it is NOW */
__CPROVER_ensures (__CPROVER_return_value->reduces.els == (int *) ((vlo_t *) vlo_array.vlo_start)[__CPROVER_return_value->reduces.intern].vlo_start)
;
void h_csv_new (void)
{
  struct set_core *sc; struct symb *sy; struct _os_segment *seg; size_t st, fr; char *nv;
  HAVOC (gh_newlen); HAVOC (sc); HAVOC (sy);
  /* the stack of records: one segment of the default length, top object empty somewhere in it */
  seg = malloc (OS_DEFAULT_SEGMENT_LENGTH + HDR); __CPROVER_assume (seg != NULL);
  HAVOC (st); __CPROVER_assume (st % 8 == 0 && st <= OS_DEFAULT_SEGMENT_LENGTH);
  core_symb_vect_os.os_alloc = (YaepAllocator *) seg; core_symb_vect_os.os_current_segment = seg; core_symb_vect_os.initial_segment_length = OS_DEFAULT_SEGMENT_LENGTH;
  core_symb_vect_os.os_top_object_start = core_symb_vect_os.os_top_object_free = (char *) seg + PAY + st; core_symb_vect_os.os_boundary = (char *) seg + PAY + OS_DEFAULT_SEGMENT_LENGTH;
  /* the array of vlos: a block of its own */
  vlo_array.vlo_start = malloc (VCAP2 * sizeof (vlo_t)); __CPROVER_assume (vlo_array.vlo_start != NULL);
  HAVOC (vlo_array_len); __CPROVER_assume (vlo_array_len >= 0 && vlo_array_len + 2 <= VCAP2);
  vlo_array.vlo_free = vlo_array.vlo_start + vlo_array_len * sizeof (vlo_t); vlo_array.vlo_boundary = vlo_array.vlo_start + VCAP2 * sizeof (vlo_t); vlo_array.vlo_alloc = (YaepAllocator *) seg;
  /* the list of records of the set being formed: room for one more pointer (its growth is _VLO_expand_memory's business) */
  nv = malloc (64); __CPROVER_assume (nv != NULL); HAVOC (fr); __CPROVER_assume (fr % 8 == 0 && fr + 8 <= 64);
  new_core_symb_vect_vlo.vlo_start = nv; new_core_symb_vect_vlo.vlo_free = nv + fr; new_core_symb_vect_vlo.vlo_boundary = nv + 64; new_core_symb_vect_vlo.vlo_alloc = (YaepAllocator *) seg;
  HAVOC (n_core_symb_pairs); __CPROVER_assume (n_core_symb_pairs >= 0 && n_core_symb_pairs < 1000000);
  core_symb_vect_new (sc, sy);
  VACUITY_CANARY ();
}
