/* C19 VLO.*: the VLO_* macros and _VLO_add_string_function under contract, against the
   ASSUMED contract of _VLO_expand_memory (its `vlo_free += new - old` after realloc is outside
   CBMC's memory model; it is exercised natively in native/vlo_grow.c, mode N). */
#include "prelude.h"
#include "vlobject.h"
size_t gh_cap;      /* capacity before the call: vlo_boundary - vlo_start */
size_t gh_len;      /* length before the call */
size_t gh_k;        /* ghost index into the contents */
char gh_byte;       /* contents[gh_k] before the call */
size_t gh_newcap;   /* capacity chosen by an expansion */
size_t gh_j;        /* ghost index into appended bytes */
#include "vlobject.c"
#include "alloc_model.h"
#ifndef CAP
#define CAP 64
#endif
#define OFF(p) __CPROVER_POINTER_OFFSET (p)

#define VLO_INV(v, C) (__CPROVER_is_fresh (v, sizeof (*(v))) && (C) >= 1 && (C) <= CAP && (v)->vlo_alloc != NULL \
  && __CPROVER_is_fresh ((v)->vlo_start, (C)) \
  && __CPROVER_pointer_in_range_dfcc ((v)->vlo_start, (v)->vlo_free, (v)->vlo_start + (C)) \
  && (v)->vlo_boundary == (v)->vlo_start + (C))
#define LEN(v) ((size_t) (OFF ((v)->vlo_free) - OFF ((v)->vlo_start)))

/* assumed contract of _VLO_expand_memory (A5): same bytes, same length, room for the request */
void vlo_expand_use_c (vlo_t *vlo, size_t additional_length)
__CPROVER_requires (gh_len == LEN (vlo))
__CPROVER_requires (gh_len == 0 || (gh_k < gh_len && gh_byte == vlo->vlo_start[gh_k]))
__CPROVER_assigns (vlo->vlo_start, vlo->vlo_free, vlo->vlo_boundary, gh_newcap)
__CPROVER_ensures (gh_newcap > gh_len + additional_length && gh_newcap <= 4 * CAP + 1)
__CPROVER_ensures (__CPROVER_is_fresh (vlo->vlo_start, gh_newcap))
__CPROVER_ensures (__CPROVER_pointer_in_range_dfcc (vlo->vlo_start + gh_len, vlo->vlo_free, vlo->vlo_start + gh_len))
__CPROVER_ensures (__CPROVER_pointer_in_range_dfcc (vlo->vlo_start + gh_newcap, vlo->vlo_boundary, vlo->vlo_start + gh_newcap))
__CPROVER_ensures (gh_len == 0 || vlo->vlo_start[gh_k] == gh_byte)
;
size_t strlen_c (const char *s)
__CPROVER_assigns ()
__CPROVER_ensures (__CPROVER_return_value < CAP)
;

/* one-line wrappers: the body IS the macro invocation */
void w_vlo_create (vlo_t *v, YaepAllocator *a, size_t n) { VLO_CREATE (*v, a, n); }
void w_vlo_delete (vlo_t *v) { VLO_DELETE (*v); }
void w_vlo_nullify (vlo_t *v) { VLO_NULLIFY (*v); }
size_t w_vlo_length (vlo_t *v) { return VLO_LENGTH (*v); }
void *w_vlo_begin (vlo_t *v) { return VLO_BEGIN (*v); }
void *w_vlo_bound (vlo_t *v) { return VLO_BOUND (*v); }
void w_vlo_shorten (vlo_t *v, size_t n) { VLO_SHORTEN (*v, n); }
void w_vlo_expand (vlo_t *v, size_t n) { VLO_EXPAND (*v, n); }
void w_vlo_add_byte (vlo_t *v, char b) { VLO_ADD_BYTE (*v, b); }
void w_vlo_add_memory (vlo_t *v, const void *src, size_t n) { VLO_ADD_MEMORY (*v, src, n); }

void vlo_create_c (vlo_t *v, YaepAllocator *a, size_t n)
__CPROVER_requires (__CPROVER_is_fresh (v, sizeof (*v)) && a != NULL && n <= CAP)
__CPROVER_assigns (*v)
__CPROVER_ensures (__CPROVER_is_fresh (v->vlo_start, n != 0 ? n : VLO_DEFAULT_LENGTH))
__CPROVER_ensures (v->vlo_free == v->vlo_start && v->vlo_boundary == v->vlo_start + (n != 0 ? n : VLO_DEFAULT_LENGTH) && v->vlo_alloc == a)
;
void vlo_delete_c (vlo_t *v)
__CPROVER_requires (VLO_INV (v, gh_cap))
__CPROVER_assigns (v->vlo_start)
__CPROVER_frees (v->vlo_start)
__CPROVER_ensures (__CPROVER_was_freed (__CPROVER_old (v->vlo_start)) && v->vlo_start == NULL)
;
void vlo_nullify_c (vlo_t *v)
__CPROVER_requires (VLO_INV (v, gh_cap))
__CPROVER_assigns (v->vlo_free)
__CPROVER_ensures (v->vlo_free == v->vlo_start)
;
size_t vlo_length_c (vlo_t *v)
__CPROVER_requires (VLO_INV (v, gh_cap))
__CPROVER_assigns ()
__CPROVER_ensures (__CPROVER_return_value == LEN (v))
;
void *vlo_begin_c (vlo_t *v)
__CPROVER_requires (VLO_INV (v, gh_cap))
__CPROVER_assigns ()
__CPROVER_ensures (__CPROVER_return_value == v->vlo_start)
;
void *vlo_bound_c (vlo_t *v)
__CPROVER_requires (VLO_INV (v, gh_cap))
__CPROVER_assigns ()
__CPROVER_ensures (__CPROVER_return_value == v->vlo_free)
;
void vlo_shorten_c (vlo_t *v, size_t n)
__CPROVER_requires (VLO_INV (v, gh_cap) && gh_len == LEN (v))
__CPROVER_requires (gh_len == 0 || (gh_k < gh_len && gh_byte == v->vlo_start[gh_k]))
__CPROVER_assigns (v->vlo_free)
__CPROVER_ensures (LEN (v) == (gh_len < n ? 0 : gh_len - n) && __CPROVER_same_object (v->vlo_free, v->vlo_start))
__CPROVER_ensures (gh_len == 0 || v->vlo_start[gh_k] == gh_byte)     /* remaining bytes (and the cut ones) are not altered */
;
void vlo_expand_c (vlo_t *v, size_t n)
__CPROVER_requires (VLO_INV (v, gh_cap) && gh_len == LEN (v) && n <= CAP)
__CPROVER_requires (gh_len == 0 || (gh_k < gh_len && gh_byte == v->vlo_start[gh_k]))
__CPROVER_assigns (v->vlo_start, v->vlo_free, v->vlo_boundary, gh_newcap)
__CPROVER_ensures (LEN (v) == gh_len + n && __CPROVER_same_object (v->vlo_free, v->vlo_start))
__CPROVER_ensures (OFF (v->vlo_free) <= OFF (v->vlo_boundary) && __CPROVER_same_object (v->vlo_boundary, v->vlo_start))
__CPROVER_ensures (gh_len == 0 || v->vlo_start[gh_k] == gh_byte)
;
void vlo_add_byte_c (vlo_t *v, char b)
__CPROVER_requires (VLO_INV (v, gh_cap) && gh_len == LEN (v))
__CPROVER_requires (gh_len == 0 || (gh_k < gh_len && gh_byte == v->vlo_start[gh_k]))
__CPROVER_assigns (v->vlo_start, v->vlo_free, v->vlo_boundary, gh_newcap, __CPROVER_object_from (v->vlo_free))
__CPROVER_ensures (LEN (v) == gh_len + 1 && v->vlo_start[gh_len] == b)
__CPROVER_ensures (gh_len == 0 || v->vlo_start[gh_k] == gh_byte)
__CPROVER_ensures (OFF (v->vlo_free) <= OFF (v->vlo_boundary) && __CPROVER_same_object (v->vlo_boundary, v->vlo_start))
;
void vlo_add_memory_c (vlo_t *v, const void *src, size_t n)
__CPROVER_requires (VLO_INV (v, gh_cap) && gh_len == LEN (v))
__CPROVER_requires (n >= 1 && n <= CAP && __CPROVER_is_fresh (src, n) && gh_j < n)
__CPROVER_requires (gh_len == 0 || (gh_k < gh_len && gh_byte == v->vlo_start[gh_k]))
__CPROVER_assigns (v->vlo_start, v->vlo_free, v->vlo_boundary, gh_newcap, __CPROVER_object_from (v->vlo_free))
__CPROVER_ensures (LEN (v) == gh_len + n && v->vlo_start[gh_len + gh_j] == ((const char *) src)[gh_j])
__CPROVER_ensures (gh_len == 0 || v->vlo_start[gh_k] == gh_byte)
__CPROVER_ensures (OFF (v->vlo_free) <= OFF (v->vlo_boundary) && __CPROVER_same_object (v->vlo_boundary, v->vlo_start))
;

#define GH() do { HAVOC (gh_cap); HAVOC (gh_len); HAVOC (gh_k); HAVOC (gh_byte); HAVOC (gh_newcap); HAVOC (gh_j); } while (0)
void h_vlo_create (void) { GH (); vlo_t *v; YaepAllocator *a; size_t n; w_vlo_create (v, a, n); VACUITY_CANARY (); }
void h_vlo_delete (void) { GH (); vlo_t *v; w_vlo_delete (v); VACUITY_CANARY (); }
void h_vlo_nullify (void) { GH (); vlo_t *v; w_vlo_nullify (v); VACUITY_CANARY (); }
void h_vlo_length (void) { GH (); vlo_t *v; w_vlo_length (v); VACUITY_CANARY (); }
void h_vlo_begin (void) { GH (); vlo_t *v; w_vlo_begin (v); VACUITY_CANARY (); }
void h_vlo_bound (void) { GH (); vlo_t *v; w_vlo_bound (v); VACUITY_CANARY (); }
void h_vlo_shorten (void) { GH (); vlo_t *v; size_t n; w_vlo_shorten (v, n); VACUITY_CANARY (); }
void h_vlo_expand (void) { GH (); vlo_t *v; size_t n; w_vlo_expand (v, n); VACUITY_CANARY (); }
void h_vlo_add_byte (void) { GH (); vlo_t *v; char b; w_vlo_add_byte (v, b); VACUITY_CANARY (); }
void h_vlo_add_memory (void) { GH (); vlo_t *v; const void *src; size_t n; w_vlo_add_memory (v, src, n); VACUITY_CANARY (); }
