/* C19 HT.*: hashtab.c under contract.  The real translation unit is included below. */
#include "prelude.h"
#include "hashtab.h"
/* ---- ghost state ---- */
size_t gh_k;                      /* ghost index: an arbitrary slot number (universal quantification) */
hash_table_entry_t gh_eq_a;       /* first argument of the most recent eq call */
int gh_eq_ret;                    /* its answer */
unsigned gh_hash_ret;             /* most recent hash value */
#include "hashtab.c"
#include "alloc_model.h"
#ifndef CAP
#define CAP 64
#endif
#define ENT_SZ (sizeof (hash_table_entry_t))


/* ---- callback contracts: pure, total ---- */
unsigned ht_hash_c (hash_table_entry_t el)
__CPROVER_assigns (gh_hash_ret)
__CPROVER_ensures (gh_hash_ret == __CPROVER_return_value)
{ unsigned r; gh_hash_ret = r; return r; }
int ht_eq_c (hash_table_entry_t a, hash_table_entry_t b)
__CPROVER_assigns (gh_eq_a, gh_eq_ret)
__CPROVER_ensures (gh_eq_a == a && gh_eq_ret == __CPROVER_return_value)
{ int r; gh_eq_a = a; gh_eq_ret = r; return r; }
unsigned (*keep_hash) (hash_table_entry_t) = ht_hash_c;
int (*keep_eq) (hash_table_entry_t, hash_table_entry_t) = ht_eq_c;

/* ---- representation invariant as a macro over one object (no quantifier) ---- */
#define HT_SHAPE(h) (__CPROVER_is_fresh (h, sizeof (*h)) && (h)->size >= 3 && (h)->size <= CAP \
  && __CPROVER_is_fresh ((h)->entries, (h)->size * ENT_SZ) \
  && (h)->number_of_deleted_elements <= (h)->number_of_elements && (h)->number_of_elements < (h)->size \
  && __CPROVER_obeys_contract ((h)->hash_function, ht_hash_c) && __CPROVER_obeys_contract ((h)->eq_function, ht_eq_c))

/* ---- HT.hpn ---- */
unsigned long hpn_c (unsigned long number)
__CPROVER_assigns ()
__CPROVER_ensures (__CPROVER_return_value % 2 == 1)
;
/* what callers may assume in addition (Bertrand's postulate; N-checked in native/ht_prime.c): */
unsigned long hpn_assumed_c (unsigned long number)
__CPROVER_requires (number <= 4 * CAP + 8)
__CPROVER_assigns ()
__CPROVER_ensures (__CPROVER_return_value >= 3 && __CPROVER_return_value % 2 == 1 && __CPROVER_return_value > number
                   && __CPROVER_return_value <= 2 * number + 3)
;

/* ---- HT.create ---- */
hash_table_t create_c (YaepAllocator *allocator, size_t size, unsigned (*hf) (hash_table_entry_t), int (*ef) (hash_table_entry_t, hash_table_entry_t))
__CPROVER_requires (size <= 2 * CAP && allocator != NULL)
__CPROVER_assigns ()
__CPROVER_ensures (__CPROVER_is_fresh (__CPROVER_return_value, sizeof (*__CPROVER_return_value)))
__CPROVER_ensures (__CPROVER_return_value->size > size && __CPROVER_return_value->size >= 3 && __CPROVER_return_value->size <= 2 * size + 3)
__CPROVER_ensures (__CPROVER_is_fresh (__CPROVER_return_value->entries, __CPROVER_return_value->size * ENT_SZ))
__CPROVER_ensures (__CPROVER_return_value->number_of_elements == 0 && __CPROVER_return_value->number_of_deleted_elements == 0)
__CPROVER_ensures (__CPROVER_return_value->searches == 0 && __CPROVER_return_value->collisions == 0)
__CPROVER_ensures (__CPROVER_return_value->hash_function == hf && __CPROVER_return_value->eq_function == ef && __CPROVER_return_value->alloc == allocator)
__CPROVER_ensures (gh_k < __CPROVER_return_value->size ==> __CPROVER_return_value->entries[gh_k] == EMPTY_ENTRY)  /* every slot empty */
;

/* ---- HT.empty ---- */
void empty_c (hash_table_t htab)
__CPROVER_requires (__CPROVER_is_fresh (htab, sizeof (*htab)) && htab->size >= 1 && htab->size <= CAP && __CPROVER_is_fresh (htab->entries, htab->size * ENT_SZ))
__CPROVER_assigns (htab->number_of_elements, htab->number_of_deleted_elements, __CPROVER_object_whole (htab->entries))
__CPROVER_ensures (htab->number_of_elements == 0 && htab->number_of_deleted_elements == 0)
__CPROVER_ensures (gh_k < htab->size ==> htab->entries[gh_k] == EMPTY_ENTRY)
;

/* ---- HT.delete ---- */
void delete_c (hash_table_t htab)
__CPROVER_requires (__CPROVER_is_fresh (htab, sizeof (*htab)) && htab->size >= 1 && htab->size <= CAP && __CPROVER_is_fresh (htab->entries, htab->size * ENT_SZ) && htab->alloc != NULL)
__CPROVER_assigns ()
__CPROVER_frees (htab, htab->entries)
__CPROVER_ensures (__CPROVER_was_freed (htab) && __CPROVER_was_freed (__CPROVER_old (htab->entries)))
;

/* ---- HT.expand (assumed by HT.find, enforced by HT.expand) ---- */
size_t gh_old_n;
void expand_c (hash_table_t htab)
__CPROVER_requires (HT_SHAPE (htab) && htab->number_of_elements == gh_old_n)
__CPROVER_assigns (*htab)
__CPROVER_frees (htab->entries)
__CPROVER_ensures (htab->size >= 3 && htab->size <= 4 * CAP + 3 && __CPROVER_is_fresh (htab->entries, htab->size * ENT_SZ))
__CPROVER_ensures (htab->number_of_deleted_elements == 0 && htab->number_of_elements <= gh_old_n)
__CPROVER_ensures (htab->size > 2 * gh_old_n)               /* the slack the probe loop relies on */
__CPROVER_ensures (htab->hash_function == __CPROVER_old (htab->hash_function) && htab->eq_function == __CPROVER_old (htab->eq_function)
                   && htab->alloc == __CPROVER_old (htab->alloc))
__CPROVER_ensures (gh_k < htab->size ==> htab->entries[gh_k] != DELETED_ENTRY)
;

/* Under HT.find's precondition (load below the growth threshold) the expansion branch is dead: the call site must
   prove this contract's precondition `false`, i.e. that it is unreachable.  Expansion itself is the bounded set HT.abs.expand. */
void expand_unreachable_c (hash_table_t htab)
__CPROVER_requires (0)
__CPROVER_assigns ()
__CPROVER_ensures (1)
;
/* ---- HT.find ---- */
int gh_reserve;
size_t gh_n0, gh_d0;
hash_table_entry_t gh_slot_before;   /* content of slot gh_k before the call */
hash_table_entry_t *find_c (hash_table_t htab, hash_table_entry_t element, int reserve)
__CPROVER_requires (HT_SHAPE (htab))
__CPROVER_requires (htab->size / 4 > htab->number_of_elements / 3)        /* no expansion needed: expansion is HT.expand's obligation */
__CPROVER_requires (gh_n0 == htab->number_of_elements && gh_d0 == htab->number_of_deleted_elements)
__CPROVER_requires (gh_k < htab->size && gh_slot_before == htab->entries[gh_k])
__CPROVER_assigns (htab->number_of_elements, htab->searches, htab->collisions, all_searches, all_collisions, gh_hash_ret, gh_eq_a, gh_eq_ret)
__CPROVER_assigns (reserve: __CPROVER_object_whole (htab->entries))
__CPROVER_ensures (__CPROVER_same_object (__CPROVER_return_value, htab->entries))
__CPROVER_ensures (__CPROVER_POINTER_OFFSET (__CPROVER_return_value) < htab->size * ENT_SZ && __CPROVER_POINTER_OFFSET (__CPROVER_return_value) % ENT_SZ == 0)
__CPROVER_ensures (*__CPROVER_return_value != DELETED_ENTRY)
/* a non-empty result is a slot whose content the caller's eq function accepted */
__CPROVER_ensures (*__CPROVER_return_value == EMPTY_ENTRY || (gh_eq_a == *__CPROVER_return_value && gh_eq_ret != 0))
/* element count changes exactly when a slot was reserved */
__CPROVER_ensures (htab->number_of_elements == gh_n0 + ((reserve && *__CPROVER_return_value == EMPTY_ENTRY) ? 1 : 0))
__CPROVER_ensures (htab->number_of_deleted_elements == gh_d0)
/* an arbitrary slot keeps its content, except that a reserved slot taken from a deleted one is cleared */
__CPROVER_ensures (htab->entries[gh_k] == gh_slot_before
                   || (reserve && gh_slot_before == DELETED_ENTRY && __CPROVER_return_value == htab->entries + gh_k && htab->entries[gh_k] == EMPTY_ENTRY))
;

/* ---- HT.remove ---- */
int gh_present;                   /* ghost: the element passed to remove is in the table */
hash_table_entry_t *find_for_remove_c (hash_table_t htab, hash_table_entry_t element, int reserve)
__CPROVER_requires (__CPROVER_is_fresh (htab, sizeof (*htab)) && htab->size >= 3 && htab->size <= CAP && __CPROVER_is_fresh (htab->entries, htab->size * ENT_SZ))
__CPROVER_requires (reserve == 0)
__CPROVER_assigns (htab->searches, htab->collisions, all_searches, all_collisions)
__CPROVER_ensures (__CPROVER_same_object (__CPROVER_return_value, htab->entries))
__CPROVER_ensures (__CPROVER_POINTER_OFFSET (__CPROVER_return_value) < htab->size * ENT_SZ && __CPROVER_POINTER_OFFSET (__CPROVER_return_value) % ENT_SZ == 0)
__CPROVER_ensures (*__CPROVER_return_value != DELETED_ENTRY)
__CPROVER_ensures (gh_present ==> *__CPROVER_return_value != EMPTY_ENTRY)   /* assumed here; established within the bound by HT.abs */
;
void remove_c (hash_table_t htab, hash_table_entry_t element)
__CPROVER_requires (gh_present)      /* documented precondition: the element is in the table */
__CPROVER_requires (__CPROVER_is_fresh (htab, sizeof (*htab)) && htab->size >= 3 && htab->size <= CAP && __CPROVER_is_fresh (htab->entries, htab->size * ENT_SZ))
__CPROVER_requires (gh_d0 == htab->number_of_deleted_elements && gh_k < htab->size && gh_slot_before == htab->entries[gh_k])
__CPROVER_assigns (htab->number_of_deleted_elements, htab->searches, htab->collisions, all_searches, all_collisions, __CPROVER_object_whole (htab->entries))
__CPROVER_ensures (htab->number_of_deleted_elements == gh_d0 + 1)
__CPROVER_ensures (htab->entries[gh_k] == gh_slot_before || (htab->entries[gh_k] == DELETED_ENTRY && gh_slot_before != EMPTY_ENTRY && gh_slot_before != DELETED_ENTRY))
;

/* ---- accessors ---- */
size_t size_c (hash_table_t htab)
__CPROVER_requires (__CPROVER_is_fresh (htab, sizeof (*htab)))
__CPROVER_assigns ()
__CPROVER_ensures (__CPROVER_return_value == htab->size)
;
size_t elements_c (hash_table_t htab)
__CPROVER_requires (__CPROVER_is_fresh (htab, sizeof (*htab)) && htab->number_of_deleted_elements <= htab->number_of_elements)
__CPROVER_assigns ()
__CPROVER_ensures (__CPROVER_return_value == htab->number_of_elements - htab->number_of_deleted_elements)
;

/* ---- harnesses ---- */
#define GH() do { HAVOC (gh_k); HAVOC (gh_eq_a); HAVOC (gh_eq_ret); HAVOC (gh_hash_ret); HAVOC (gh_old_n); HAVOC (gh_reserve); HAVOC (gh_n0); HAVOC (gh_d0); HAVOC (gh_slot_before); HAVOC (gh_present); } while (0)
void h_hpn (void) { GH (); unsigned long n; higher_prime_number (n); VACUITY_CANARY (); }
void h_create (void) { GH (); YaepAllocator *a; size_t n; unsigned (*hf) (hash_table_entry_t); int (*ef) (hash_table_entry_t, hash_table_entry_t);
  create_hash_table (a, n, hf, ef); VACUITY_CANARY (); }
void h_empty (void) { GH (); hash_table_t h; empty_hash_table (h); VACUITY_CANARY (); }
void h_delete (void) { GH (); hash_table_t h; delete_hash_table (h); VACUITY_CANARY (); }
void h_expand (void) { GH (); hash_table_t h; expand_hash_table (h); VACUITY_CANARY (); }
void h_find (void) { GH (); hash_table_t h; hash_table_entry_t e; int r; hash_table_entry_t *p = find_hash_table_entry (h, e, r);
  if (*p == EMPTY_ENTRY) VACUITY_CANARY_N ("empty result"); else VACUITY_CANARY_N ("hit"); }
void h_remove (void) { GH (); hash_table_t h; hash_table_entry_t e; remove_element_from_hash_table_entry (h, e); VACUITY_CANARY (); }
void h_size (void) { GH (); hash_table_t h; hash_table_size (h); VACUITY_CANARY (); }
void h_elements (void) { GH (); hash_table_t h; hash_table_elements_number (h); VACUITY_CANARY (); }
