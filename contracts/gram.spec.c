/* G.create / G.free / A.unwind (C14, C15 defaults, C17): yaep_create_grammar phases A and B, yaep_free_grammar,
   symb_fin / term_set_fin / rule_fin, yaep_parse_grammar front (D.front, G.switch for the description path).
   Allocation goes through CONTRACTS here (not the model) so that every allocation site carries the exit assertion
   "a failure at this point is reported through yaep's handler and the object can be unwound" (DESIGN 4.2). */
#include "prelude.h"
#include "yaep_ghost.h"
struct grammar; struct symbs; struct term_sets; struct rules;
struct grammar *gh_g;            /* the object of this API call (NULL while it does not exist yet) */
int gh_handler;                  /* allocator error function: 0 default (prints and exits), 1 yaep's (records YAEP_NO_MEMORY, longjmp), 2 ignore (request returns NULL) */
struct symbs *gh_symbs; struct term_sets *gh_tsets; struct rules *gh_rules;   /* storage built for gh_g so far */
int gh_rel_symbs, gh_rel_tsets, gh_rel_rules, gh_rel_g, gh_rel_alloc;         /* release counters */
void *gh_allocator;
int gh_err_code;
int gh_sg_live;                  /* intermediate form of the description exists */
int gh_rg_ret;                   /* what yaep_read_grammar returned */
#include "yaep.c"
#include "r3_unwind.inc"

#ifdef VERIF_DFCC
void verif_error_exit (int code) { __CPROVER_assume (0); }
#endif

/* what must hold whenever control can leave by an allocation failure during yaep_create_grammar:
   the handler is yaep's, the object is the current one and every storage pointer is NULL or what was built */
#define UNWINDABLE_CREATE (gh_handler == 1 && grammar == gh_g && gh_g != NULL \
   && (grammar->symbs_ptr == NULL || grammar->symbs_ptr == gh_symbs) \
   && (grammar->term_sets_ptr == NULL || grammar->term_sets_ptr == gh_tsets) \
   && (grammar->rules_ptr == NULL || grammar->rules_ptr == gh_rules))

/* ---- allocation layer as seen from yaep.c ---- */
YaepAllocator *alloc_new_c (Yaep_malloc m, Yaep_calloc c, Yaep_realloc r, Yaep_free f)
__CPROVER_requires (m == NULL && c == NULL && r == NULL && f == NULL)
__CPROVER_assigns (gh_handler, gh_allocator)
__CPROVER_ensures (gh_handler == 0 && gh_allocator == (void *) __CPROVER_return_value)    /* a new allocator has the default error function */
;
void alloc_seterr_c (YaepAllocator *a, Yaep_alloc_error errfunc, void *userptr)
__CPROVER_requires (a != NULL && (void *) a == gh_allocator)
__CPROVER_assigns (gh_handler)
__CPROVER_ensures (gh_handler == (errfunc == error_func_for_allocate ? 1 : errfunc == error_func_ignore ? 2 : 0))
;
void *alloc_getuserptr_c (YaepAllocator *a)
__CPROVER_assigns ()
__CPROVER_ensures (1)
;
void *malloc_guard_c (YaepAllocator *a, size_t size)
__CPROVER_requires (a != NULL && size > 0)
__CPROVER_requires (gh_handler != 0)                          /* C17: never the default handler (it terminates the process) */
__CPROVER_requires (gh_handler == 1 ==> UNWINDABLE_CREATE)
__CPROVER_assigns ()
__CPROVER_ensures (gh_handler == 2 ? (__CPROVER_return_value == NULL || __CPROVER_is_fresh (__CPROVER_return_value, size))
                                   : __CPROVER_is_fresh (__CPROVER_return_value, size))
;
void alloc_del_c (YaepAllocator *a)
__CPROVER_requires ((void *) a == gh_allocator && gh_rel_alloc == 0)
__CPROVER_assigns (gh_rel_alloc)
__CPROVER_ensures (gh_rel_alloc == 1)
;
void free_obj_c (YaepAllocator *a, void *p)
__CPROVER_requires ((void *) a == gh_allocator && p == (void *) gh_g && gh_rel_g == 0 && gh_rel_alloc == 0)
__CPROVER_assigns (gh_rel_g)
__CPROVER_frees (p)
__CPROVER_ensures (gh_rel_g == 1)
;

struct symbs *symb_init_c (void)
__CPROVER_requires (UNWINDABLE_CREATE && grammar->symbs_ptr == NULL && grammar->alloc != NULL)
__CPROVER_assigns (gh_symbs)
__CPROVER_ensures (__CPROVER_is_fresh (__CPROVER_return_value, sizeof (struct symbs)))
__CPROVER_ensures (gh_symbs == __CPROVER_return_value)
;
struct term_sets *term_set_init_c (void)
__CPROVER_requires (UNWINDABLE_CREATE && grammar->term_sets_ptr == NULL && grammar->alloc != NULL)
__CPROVER_assigns (gh_tsets)
__CPROVER_ensures (__CPROVER_is_fresh (__CPROVER_return_value, sizeof (struct term_sets)))
__CPROVER_ensures (gh_tsets == __CPROVER_return_value)
;
struct rules *rule_init_c (void)
__CPROVER_requires (UNWINDABLE_CREATE && grammar->rules_ptr == NULL && grammar->alloc != NULL)
__CPROVER_assigns (gh_rules)
__CPROVER_ensures (__CPROVER_is_fresh (__CPROVER_return_value, sizeof (struct rules)))
__CPROVER_ensures (gh_rules == __CPROVER_return_value)
;

/* ---- phase A: yaep_create_grammar ---- */
struct grammar *create_c (void)
__CPROVER_requires (gh_g == NULL && gh_rel_alloc == 0 && gh_rel_g == 0)
__CPROVER_assigns (grammar, symbs_ptr, term_sets_ptr, rules_ptr, gh_handler, gh_allocator, gh_symbs, gh_tsets, gh_rules, gh_rel_alloc, gh_g)
/* failure before the object exists: NULL, and the allocator made for it is released */
__CPROVER_ensures (__CPROVER_return_value == NULL ==> (gh_allocator == NULL || gh_rel_alloc == 1))
/* success: a fresh undefined object with error state cleared and the documented defaults, which is the current grammar */
__CPROVER_ensures (__CPROVER_return_value != NULL ==> (grammar == __CPROVER_return_value && gh_handler == 1 && gh_rel_alloc == 0))
__CPROVER_ensures (__CPROVER_return_value != NULL ==> (__CPROVER_return_value->undefined_p == 1 && __CPROVER_return_value->error_code == 0
                   && __CPROVER_return_value->error_message[0] == '\0'))
__CPROVER_ensures (__CPROVER_return_value != NULL ==> (__CPROVER_return_value->lookahead_level == 1 && __CPROVER_return_value->one_parse_p == 1
                   && __CPROVER_return_value->cost_p == 0 && __CPROVER_return_value->error_recovery_p == 1
                   && __CPROVER_return_value->recovery_token_matches == 3 && __CPROVER_return_value->debug_level == 0))
__CPROVER_ensures (__CPROVER_return_value != NULL ==> (__CPROVER_return_value->symbs_ptr == gh_symbs && __CPROVER_return_value->term_sets_ptr == gh_tsets
                   && __CPROVER_return_value->rules_ptr == gh_rules && (void *) __CPROVER_return_value->alloc == gh_allocator
                   && symbs_ptr == gh_symbs && term_sets_ptr == gh_tsets && rules_ptr == gh_rules))
;
/* In yaep_create_grammar the object becomes "the object of this call" when it is allocated: the ghost follows the global. */
void *malloc_first_c (YaepAllocator *a, size_t size)
__CPROVER_requires (a != NULL && size > 0 && (void *) a == gh_allocator)
__CPROVER_requires (gh_handler != 0)
__CPROVER_requires (gh_handler == 2 && gh_g == NULL)          /* no object yet: a failure must come back as NULL */
__CPROVER_assigns (gh_g)
__CPROVER_ensures (__CPROVER_return_value == NULL || __CPROVER_is_fresh (__CPROVER_return_value, size))
__CPROVER_ensures (gh_g == (struct grammar *) __CPROVER_return_value)
;

/* ---- G.free: yaep_free_grammar on an arbitrary (also partially built) object, file-scope state arbitrary ---- */
void rule_fin_c (struct rules *r)
__CPROVER_requires (grammar == gh_g && grammar != NULL && r == grammar->rules_ptr && gh_rel_g == 0)          /* takes the allocator from the current grammar */
__CPROVER_assigns (gh_rel_rules)
__CPROVER_ensures (gh_rel_rules == __CPROVER_old (gh_rel_rules) + (r != NULL))
;
void term_set_fin_c (struct term_sets *t)
__CPROVER_requires (grammar == gh_g && grammar != NULL && t == grammar->term_sets_ptr && gh_rel_g == 0)
__CPROVER_assigns (gh_rel_tsets)
__CPROVER_ensures (gh_rel_tsets == __CPROVER_old (gh_rel_tsets) + (t != NULL))
;
void symb_fin_c (struct symbs *s)
__CPROVER_requires (grammar == gh_g && grammar != NULL && s == grammar->symbs_ptr && gh_rel_g == 0)
__CPROVER_requires (s != NULL ==> symbs_ptr == s)                                      /* symb_fin works on the current symbol storage */
__CPROVER_assigns (gh_rel_symbs)
__CPROVER_ensures (gh_rel_symbs == __CPROVER_old (gh_rel_symbs) + (s != NULL))
;
void free_c (struct grammar *g)
__CPROVER_requires (g == NULL || (__CPROVER_is_fresh (g, sizeof (*g)) && g->alloc != NULL && (void *) g->alloc == gh_allocator))
__CPROVER_requires (gh_g == g && pl == NULL)                                          /* PLINV */
__CPROVER_requires (gh_rel_symbs == 0 && gh_rel_tsets == 0 && gh_rel_rules == 0 && gh_rel_g == 0 && gh_rel_alloc == 0)
__CPROVER_assigns (grammar, symbs_ptr, term_sets_ptr, rules_ptr, pl, gh_rel_symbs, gh_rel_tsets, gh_rel_rules, gh_rel_g, gh_rel_alloc)
__CPROVER_frees (g)
__CPROVER_ensures (grammar == NULL && pl == NULL)
/* everything the object owns is released exactly once, in an order that never uses the object after it is gone */
__CPROVER_ensures (g != NULL ==> (gh_rel_symbs == (__CPROVER_old (g->symbs_ptr) != NULL) && gh_rel_tsets == (__CPROVER_old (g->term_sets_ptr) != NULL)
                   && gh_rel_rules == (__CPROVER_old (g->rules_ptr) != NULL) && gh_rel_g == 1 && gh_rel_alloc == 1))
__CPROVER_ensures (g == NULL ==> (gh_rel_g == 0 && gh_rel_alloc == 0))
;

/* ---- phase B of yaep_create_grammar: the error branch (rule R3) from any state that satisfies the exit assertion ---- */
void free_use_c (struct grammar *g)
__CPROVER_requires (g == gh_g && g != NULL && pl == NULL)
__CPROVER_requires (g->symbs_ptr == NULL || g->symbs_ptr == gh_symbs)
__CPROVER_requires (g->term_sets_ptr == NULL || g->term_sets_ptr == gh_tsets)
__CPROVER_requires (g->rules_ptr == NULL || g->rules_ptr == gh_rules)
__CPROVER_assigns (grammar, gh_rel_g)
__CPROVER_ensures (grammar == NULL && gh_rel_g == 1)
;
struct grammar *unwind_create_c (void)
__CPROVER_requires (UNWINDABLE_CREATE && pl == NULL && gh_rel_g == 0)
__CPROVER_assigns (grammar, gh_rel_g)
__CPROVER_ensures (__CPROVER_return_value == NULL && gh_rel_g == 1)     /* C17: NULL is returned and the half-built object is released once */
;

/* ---- yaep_parse_grammar (D.front, G.switch) ---- */
int set_sgrammar_c (struct grammar *g, const char *description)
__CPROVER_requires (g == gh_g && grammar == g)                /* errors of the front end are recorded in this object */
__CPROVER_requires (symbs_ptr == g->symbs_ptr && term_sets_ptr == g->term_sets_ptr && rules_ptr == g->rules_ptr)
__CPROVER_requires (gh_sg_live == 0)
__CPROVER_assigns (gh_sg_live, gh_err_code)
__CPROVER_ensures (__CPROVER_return_value >= 0 && gh_err_code == __CPROVER_return_value)
__CPROVER_ensures (gh_sg_live == (__CPROVER_return_value == 0))            /* on failure the intermediate form is already released */
;
int read_grammar_use_c (struct grammar *g, int strict_p, const char *(*rt) (int *), const char *(*rr) (const char ***, const char **, int *, int **))
__CPROVER_requires (g == gh_g && gh_sg_live == 1 && rt == sread_terminal && rr == sread_rule)
__CPROVER_assigns (gh_rg_ret, g->undefined_p)
__CPROVER_ensures (gh_rg_ret == __CPROVER_return_value)
__CPROVER_ensures (__CPROVER_return_value != 0 ==> g->undefined_p != 0)   /* what RG.prefix / RG.tail prove of yaep_read_grammar: marked undefined first, cleared last */
;
void free_sgrammar_c (void)
__CPROVER_requires (gh_sg_live == 1)
__CPROVER_assigns (gh_sg_live)
__CPROVER_ensures (gh_sg_live == 0)
;
int strict_in;
int parse_grammar_c (struct grammar *g, int strict_p, const char *description)
__CPROVER_requires (__CPROVER_is_fresh (g, sizeof (*g)) && gh_g == g && gh_sg_live == 0)
__CPROVER_assigns (grammar, symbs_ptr, term_sets_ptr, rules_ptr, gh_sg_live, gh_err_code, gh_rg_ret, g->undefined_p)
/* C14 / C10: a failed definition - in the front end as well as in yaep_read_grammar - leaves the object undefined (it then refuses to parse) */
__CPROVER_ensures (__CPROVER_return_value != 0 ==> g->undefined_p != 0)
/* a failure of the front end returns its code; otherwise exactly what yaep_read_grammar returned on the replayed records */
__CPROVER_ensures (gh_err_code != 0 ? __CPROVER_return_value == gh_err_code : __CPROVER_return_value == gh_rg_ret)
__CPROVER_ensures (gh_sg_live == 0)                                        /* the intermediate form is released exactly once on every path */
;

/* ---- harnesses ---- */
#define GH() do { HAVOC (gh_g); HAVOC (gh_handler); HAVOC (gh_symbs); HAVOC (gh_tsets); HAVOC (gh_rules); HAVOC (gh_rel_symbs); HAVOC (gh_rel_tsets); \
  HAVOC (gh_rel_rules); HAVOC (gh_rel_g); HAVOC (gh_rel_alloc); HAVOC (gh_allocator); HAVOC (gh_err_code); HAVOC (gh_sg_live); HAVOC (gh_rg_ret); } while (0)
#define STATICS() do { HAVOC (grammar); HAVOC (symbs_ptr); HAVOC (term_sets_ptr); HAVOC (rules_ptr); HAVOC (pl); } while (0)
void h_create (void)
{
  struct grammar *g; GH (); STATICS ();
  g = yaep_create_grammar ();
  if (g == NULL) VACUITY_CANARY_N ("NULL returned"); else VACUITY_CANARY_N ("object returned");
}
void h_free (void)
{
  struct grammar *g; GH (); STATICS ();
  yaep_free_grammar (g);
  if (g == NULL) VACUITY_CANARY_N ("NULL argument"); else VACUITY_CANARY_N ("object released");
}
void h_unwind_create (void)
{
  GH (); STATICS ();
  grammar = malloc (sizeof (struct grammar)); __CPROVER_assume (grammar != NULL); gh_g = grammar;
  verif_unwind_create_grammar ();
  VACUITY_CANARY ();
}
void h_parse_grammar (void)
{
  struct grammar *g; int strict; const char *d; int rc; GH (); STATICS ();
  rc = yaep_parse_grammar (g, strict, d);
  if (gh_err_code != 0) VACUITY_CANARY_N ("front end failed"); else VACUITY_CANARY_N ("definition replayed");
}

/* ---- A.cb: the allocator's error callback installed by yaep never returns and raises YAEP_NO_MEMORY ---- */
void err_nomem_c (int code)
__CPROVER_requires (code == YAEP_NO_MEMORY)
__CPROVER_assigns (gh_err_code)
__CPROVER_ensures (0)
;
void errfunc_c (void *ignored)
__CPROVER_assigns (gh_err_code)
__CPROVER_ensures (0)                 /* does not return: control leaves through yaep_error */
;
void h_errfunc (void) { void *p; GH (); VACUITY_CANARY (); error_func_for_allocate (p); }

/* ---- D.unwind (C17 A.unwind for set_sgrammar): free_sgrammar releases exactly the containers of the intermediate form that exist,
   once each, whatever the number created when the memory request failed ---- */
int gh_nc; int gh_del0, gh_del1, gh_del2, gh_del3, gh_del4; void *gh_vs1, *gh_vs2;
void os_delete_sg_c (os_t *os)
__CPROVER_requires ((os == &stoks && gh_nc >= 1 && gh_del0 == 0) || (os == &srhs && gh_nc >= 4 && gh_del3 == 0) || (os == &strans && gh_nc >= 5 && gh_del4 == 0))
__CPROVER_assigns (gh_del0, gh_del3, gh_del4)
__CPROVER_ensures (gh_del0 == __CPROVER_old (gh_del0) + (os == &stoks) && gh_del3 == __CPROVER_old (gh_del3) + (os == &srhs) && gh_del4 == __CPROVER_old (gh_del4) + (os == &strans))
;
void vlo_free_sg_c (YaepAllocator *a, void *p)
__CPROVER_requires ((p == gh_vs1 && gh_nc >= 2 && gh_del1 == 0) || (p == gh_vs2 && gh_nc >= 3 && gh_del2 == 0))
__CPROVER_assigns (gh_del1, gh_del2)
__CPROVER_ensures (gh_del1 == __CPROVER_old (gh_del1) + (p == gh_vs1) && gh_del2 == __CPROVER_old (gh_del2) + (p == gh_vs2))
;
void free_sgrammar_enf_c (void)
__CPROVER_requires (gh_nc == n_sgrammar_containers && gh_nc >= 0 && gh_nc <= 5)
__CPROVER_requires (gh_del0 == 0 && gh_del1 == 0 && gh_del2 == 0 && gh_del3 == 0 && gh_del4 == 0)
__CPROVER_requires (gh_vs1 == (void *) sterms.vlo_start && gh_vs2 == (void *) srules.vlo_start && gh_vs1 != gh_vs2 && (gh_nc < 2 || gh_vs1 != NULL) && (gh_nc < 3 || gh_vs2 != NULL))
__CPROVER_assigns (gh_del0, gh_del1, gh_del2, gh_del3, gh_del4, n_sgrammar_containers, sterms.vlo_start, srules.vlo_start)
__CPROVER_ensures (gh_del0 == (gh_nc >= 1) && gh_del1 == (gh_nc >= 2) && gh_del2 == (gh_nc >= 3) && gh_del3 == (gh_nc >= 4) && gh_del4 == (gh_nc >= 5))
__CPROVER_ensures (n_sgrammar_containers == 0)
;
void h_free_sgrammar (void)
{
  GH (); HAVOC (gh_nc); HAVOC (gh_del0); HAVOC (gh_del1); HAVOC (gh_del2); HAVOC (gh_del3); HAVOC (gh_del4); HAVOC (gh_vs1); HAVOC (gh_vs2);
  HAVOC (n_sgrammar_containers); HAVOC (sterms.vlo_start); HAVOC (srules.vlo_start); HAVOC (sterms.vlo_alloc); HAVOC (srules.vlo_alloc);
  free_sgrammar ();
  if (gh_nc == 0) VACUITY_CANARY_N ("nothing created"); else if (gh_nc < 5) VACUITY_CANARY_N ("partly created"); else VACUITY_CANARY_N ("all created");
}
