/* X.fwd.*: the member functions of class yaep (yaep.cpp), extracted to C by staging rule R9 on every run (bodies verbatim), against the
   statement of C16 for the interface layer: each member calls exactly one C function, the corresponding one, exactly once, on the grammar
   object it wraps, with its own arguments in the same order, and returns what that function returned; nothing else is assigned.
   The C functions are replaced by recording contracts (which function, which arguments, an arbitrary result).  Loop-free: mode L. */
#include "prelude.h"
#include "yaep_ghost.h"
#include "yaep.c"
#ifdef VERIF_DFCC
void verif_error_exit (int code) { __CPROVER_assume (0); }
#endif
#include "r9_cxx_fwd.inc"

enum { FN_NONE, FN_CREATE, FN_FREE, FN_ERROR_CODE, FN_ERROR_MESSAGE, FN_READ_GRAMMAR, FN_PARSE_GRAMMAR, FN_SET_LOOKAHEAD, FN_SET_DEBUG, FN_SET_ONE_PARSE,
       FN_SET_COST, FN_SET_RECOVERY, FN_SET_MATCH, FN_PARSE, FN_FREE_TREE };
int xg_n, xg_fn; size_t xg_a0, xg_a1, xg_a2, xg_a3, xg_a4, xg_a5, xg_a6, xg_ret;
#define GH_FRAME xg_n, xg_fn, xg_a0, xg_a1, xg_a2, xg_a3, xg_a4, xg_a5, xg_a6
#define NUM(x) ((size_t) (long) (x))
#define CALLED(id) (xg_n == __CPROVER_old (xg_n) + 1 && xg_fn == (id))

/* ---- recording contracts of the C interface (replace the real functions at the call sites) ---- */
struct grammar *rec_create (void)
__CPROVER_assigns (GH_FRAME)
__CPROVER_ensures (CALLED (FN_CREATE) && (size_t) __CPROVER_return_value == xg_ret)
;
void rec_free (struct grammar *g)
__CPROVER_assigns (GH_FRAME)
__CPROVER_ensures (CALLED (FN_FREE) && xg_a0 == (size_t) g)
;
int rec_error_code (struct grammar *g)
__CPROVER_assigns (GH_FRAME)
__CPROVER_ensures (CALLED (FN_ERROR_CODE) && xg_a0 == (size_t) g && __CPROVER_return_value == (int) xg_ret)
;
const char *rec_error_message (struct grammar *g)
__CPROVER_assigns (GH_FRAME)
__CPROVER_ensures (CALLED (FN_ERROR_MESSAGE) && xg_a0 == (size_t) g && (size_t) __CPROVER_return_value == xg_ret)
;
int rec_read_grammar (struct grammar *g, int strict_p, const char *(*rt) (int *), const char *(*rr) (const char ***, const char **, int *, int **))
__CPROVER_assigns (GH_FRAME)
__CPROVER_ensures (CALLED (FN_READ_GRAMMAR) && xg_a0 == (size_t) g && xg_a1 == NUM (strict_p) && xg_a2 == (size_t) rt && xg_a3 == (size_t) rr && __CPROVER_return_value == (int) xg_ret)
;
int rec_parse_grammar (struct grammar *g, int strict_p, const char *d)
__CPROVER_assigns (GH_FRAME)
__CPROVER_ensures (CALLED (FN_PARSE_GRAMMAR) && xg_a0 == (size_t) g && xg_a1 == NUM (strict_p) && xg_a2 == (size_t) d && __CPROVER_return_value == (int) xg_ret)
;
#define REC_SETTER(name, id) int name (struct grammar *g, int v) \
__CPROVER_assigns (GH_FRAME) \
__CPROVER_ensures (CALLED (id) && xg_a0 == (size_t) g && xg_a1 == NUM (v) && __CPROVER_return_value == (int) xg_ret) ;
REC_SETTER (rec_set_lookahead, FN_SET_LOOKAHEAD)
REC_SETTER (rec_set_debug, FN_SET_DEBUG)
REC_SETTER (rec_set_one_parse, FN_SET_ONE_PARSE)
REC_SETTER (rec_set_cost, FN_SET_COST)
REC_SETTER (rec_set_recovery, FN_SET_RECOVERY)
REC_SETTER (rec_set_match, FN_SET_MATCH)
int rec_parse (struct grammar *g, int (*rt) (void **), void (*se) (int, void *, int, void *, int, void *), void *(*pa) (int), void (*pf) (void *),
               struct yaep_tree_node **root, int *amb)
__CPROVER_assigns (GH_FRAME)
__CPROVER_ensures (CALLED (FN_PARSE) && xg_a0 == (size_t) g && xg_a1 == (size_t) rt && xg_a2 == (size_t) se && xg_a3 == (size_t) pa && xg_a4 == (size_t) pf
                   && xg_a5 == (size_t) root && xg_a6 == (size_t) amb && __CPROVER_return_value == (int) xg_ret)
;
void rec_free_tree (struct yaep_tree_node *root, void (*pf) (void *), void (*tc) (struct yaep_term *))
__CPROVER_assigns (GH_FRAME)
__CPROVER_ensures (CALLED (FN_FREE_TREE) && xg_a0 == (size_t) root && xg_a1 == (size_t) pf && xg_a2 == (size_t) tc)
;

/* ---- what C16 says of each member (enforced on the extracted bodies) ---- */
#define ONCE(id) (xg_n == 1 && xg_fn == (id))
#define THIS_OK __CPROVER_requires (__CPROVER_is_fresh (t, sizeof (*t))) __CPROVER_requires (xg_n == 0)
void xx_ctor_c (struct yaepxx *t)
THIS_OK
__CPROVER_assigns (GH_FRAME, t->grammar)
__CPROVER_ensures (ONCE (FN_CREATE) && (size_t) t->grammar == xg_ret)
;
void xx_dtor_c (struct yaepxx *t)
THIS_OK
__CPROVER_assigns (GH_FRAME)
__CPROVER_ensures (ONCE (FN_FREE) && xg_a0 == (size_t) t->grammar)
;
int xx_error_code_c (struct yaepxx *t)
THIS_OK
__CPROVER_assigns (GH_FRAME)
__CPROVER_ensures (ONCE (FN_ERROR_CODE) && xg_a0 == (size_t) t->grammar && __CPROVER_return_value == (int) xg_ret)
;
const char *xx_error_message_c (struct yaepxx *t)
THIS_OK
__CPROVER_assigns (GH_FRAME)
__CPROVER_ensures (ONCE (FN_ERROR_MESSAGE) && xg_a0 == (size_t) t->grammar && (size_t) __CPROVER_return_value == xg_ret)
;
int xx_read_grammar_c (struct yaepxx *t, int strict_p, const char *(*rt) (int *), const char *(*rr) (const char ***, const char **, int *, int **))
THIS_OK
__CPROVER_assigns (GH_FRAME)
__CPROVER_ensures (ONCE (FN_READ_GRAMMAR) && xg_a0 == (size_t) t->grammar && xg_a1 == NUM (strict_p) && xg_a2 == (size_t) rt && xg_a3 == (size_t) rr && __CPROVER_return_value == (int) xg_ret)
;
int xx_parse_grammar_c (struct yaepxx *t, int strict_p, const char *d)
THIS_OK
__CPROVER_assigns (GH_FRAME)
__CPROVER_ensures (ONCE (FN_PARSE_GRAMMAR) && xg_a0 == (size_t) t->grammar && xg_a1 == NUM (strict_p) && xg_a2 == (size_t) d && __CPROVER_return_value == (int) xg_ret)
;
#define XX_SETTER(name, id) int name (struct yaepxx *t, int v) \
THIS_OK \
__CPROVER_assigns (GH_FRAME) \
__CPROVER_ensures (ONCE (id) && xg_a0 == (size_t) t->grammar && xg_a1 == NUM (v) && __CPROVER_return_value == (int) xg_ret) ;
XX_SETTER (xx_set_lookahead_level_c, FN_SET_LOOKAHEAD)
XX_SETTER (xx_set_debug_level_c, FN_SET_DEBUG)
XX_SETTER (xx_set_one_parse_flag_c, FN_SET_ONE_PARSE)
XX_SETTER (xx_set_cost_flag_c, FN_SET_COST)
XX_SETTER (xx_set_error_recovery_flag_c, FN_SET_RECOVERY)
XX_SETTER (xx_set_recovery_match_c, FN_SET_MATCH)
int xx_parse_c (struct yaepxx *t, int (*rt) (void **), void (*se) (int, void *, int, void *, int, void *), void *(*pa) (int), void (*pf) (void *),
                struct yaep_tree_node **root, int *amb)
THIS_OK
__CPROVER_assigns (GH_FRAME)
__CPROVER_ensures (ONCE (FN_PARSE) && xg_a0 == (size_t) t->grammar && xg_a1 == (size_t) rt && xg_a2 == (size_t) se && xg_a3 == (size_t) pa && xg_a4 == (size_t) pf
                   && xg_a5 == (size_t) root && xg_a6 == (size_t) amb && __CPROVER_return_value == (int) xg_ret)
;
void xx_free_tree_c (struct yaep_tree_node *root, void (*pf) (void *), void (*tc) (struct yaep_term *))
__CPROVER_requires (xg_n == 0)
__CPROVER_assigns (GH_FRAME)
__CPROVER_ensures (ONCE (FN_FREE_TREE) && xg_a0 == (size_t) root && xg_a1 == (size_t) pf && xg_a2 == (size_t) tc)
;

#define GH_INIT() do { HAVOC (xg_ret); HAVOC (xg_fn); HAVOC (xg_a0); HAVOC (xg_a1); HAVOC (xg_a2); HAVOC (xg_a3); HAVOC (xg_a4); HAVOC (xg_a5); HAVOC (xg_a6); xg_n = 0; } while (0)
void h_xx_ctor (void) { struct yaepxx *t; GH_INIT (); yaepxx_ctor (t); VACUITY_CANARY (); }
void h_xx_dtor (void) { struct yaepxx *t; GH_INIT (); yaepxx_dtor (t); VACUITY_CANARY (); }
void h_xx_error_code (void) { struct yaepxx *t; GH_INIT (); yaepxx_error_code (t); VACUITY_CANARY (); }
void h_xx_error_message (void) { struct yaepxx *t; GH_INIT (); yaepxx_error_message (t); VACUITY_CANARY (); }
void h_xx_read_grammar (void) { struct yaepxx *t; int s; const char *(*rt) (int *); const char *(*rr) (const char ***, const char **, int *, int **); GH_INIT (); yaepxx_read_grammar (t, s, rt, rr); VACUITY_CANARY (); }
void h_xx_parse_grammar (void) { struct yaepxx *t; int s; const char *d; GH_INIT (); yaepxx_parse_grammar (t, s, d); VACUITY_CANARY (); }
void h_xx_set_lookahead_level (void) { struct yaepxx *t; int v; GH_INIT (); yaepxx_set_lookahead_level (t, v); VACUITY_CANARY (); }
void h_xx_set_debug_level (void) { struct yaepxx *t; int v; GH_INIT (); yaepxx_set_debug_level (t, v); VACUITY_CANARY (); }
void h_xx_set_one_parse_flag (void) { struct yaepxx *t; int v; GH_INIT (); yaepxx_set_one_parse_flag (t, v); VACUITY_CANARY (); }
void h_xx_set_cost_flag (void) { struct yaepxx *t; int v; GH_INIT (); yaepxx_set_cost_flag (t, v); VACUITY_CANARY (); }
void h_xx_set_error_recovery_flag (void) { struct yaepxx *t; int v; GH_INIT (); yaepxx_set_error_recovery_flag (t, v); VACUITY_CANARY (); }
void h_xx_set_recovery_match (void) { struct yaepxx *t; int v; GH_INIT (); yaepxx_set_recovery_match (t, v); VACUITY_CANARY (); }
void h_xx_parse (void)
{ struct yaepxx *t; int (*rt) (void **); void (*se) (int, void *, int, void *, int, void *); void *(*pa) (int); void (*pf) (void *); struct yaep_tree_node **root; int *amb;
  GH_INIT (); yaepxx_parse (t, rt, se, pa, pf, root, amb); VACUITY_CANARY (); }
void h_xx_free_tree (void) { struct yaep_tree_node *root; void (*pf) (void *); void (*tc) (struct yaep_term *); GH_INIT (); yaepxx_free_tree (root, pf, tc); VACUITY_CANARY (); }
