/* T.size (C13, part of C03's local facts) and P.step / P.restore (C04): tree-node constructors and one level of cost pruning. */
#include "prelude.h"
#include "yaep_ghost.h"
struct yaep_tree_node;
int gh_allocs; int gh_last_req; struct yaep_tree_node *gh_place0; int gh_was_alt;

#include "yaep.c"
#include "alloc_model.h"
#ifndef TL
#define TL 8      /* cap on rule->trans_len */
#endif
typedef struct yaep_tree_node node_t;

/* the caller's parse_alloc: a fresh block of the requested size (A6) */
void *parse_alloc_c (int nmemb)
__CPROVER_requires (nmemb > 0)
__CPROVER_assigns (gh_allocs, gh_last_req)
__CPROVER_ensures (gh_allocs == __CPROVER_old (gh_allocs) + 1 && gh_last_req == nmemb)
__CPROVER_ensures (__CPROVER_is_fresh (__CPROVER_return_value, nmemb))
{ void *p = malloc (nmemb); __CPROVER_assume (p != NULL); gh_allocs++; gh_last_req = nmemb; return p; }
void *(*keep_pa) (int) = parse_alloc_c;

/* ---- place_translation ---- */
void place_c (node_t **place, node_t *node)
__CPROVER_requires (__CPROVER_is_fresh (place, sizeof (*place)) && __CPROVER_is_fresh (node, sizeof (*node)) && node->type != YAEP_ALT)
__CPROVER_requires (*place == NULL || __CPROVER_is_fresh (*place, sizeof (node_t)))
__CPROVER_requires (gh_was_alt == (*place != NULL && (*place)->type == YAEP_ALT))   /* (an int ghost: a ghost POINTER tied by equality cannot be dereferenced) */
__CPROVER_requires (gh_place0 == *place && gh_allocs == 0 && n_parse_alt_nodes >= 0 && n_parse_alt_nodes < INT_MAX - 2)
__CPROVER_requires (__CPROVER_obeys_contract (parse_alloc, parse_alloc_c))
__CPROVER_assigns (*place, n_parse_alt_nodes, gh_allocs, gh_last_req)
/* first translation: stored as is, nothing allocated */
__CPROVER_ensures (gh_place0 == NULL ==> (*place == node && gh_allocs == 0))
/* otherwise the place holds a NULL-terminated list of ALT nodes whose first alternative is the new node; an alternative is never itself an ALT */
__CPROVER_ensures (gh_place0 != NULL ==> ((*place)->type == YAEP_ALT && (*place)->val.alt.node == node))
__CPROVER_ensures ((gh_place0 != NULL && gh_was_alt) ==> ((*place)->val.alt.next == gh_place0 && gh_allocs == 1))
__CPROVER_ensures ((gh_place0 != NULL && !gh_was_alt) ==> (gh_allocs == 2 && (*place)->val.alt.next->type == YAEP_ALT
                   && (*place)->val.alt.next->val.alt.node == gh_place0 && (*place)->val.alt.next->val.alt.next == NULL))
__CPROVER_ensures (gh_allocs == 0 || gh_last_req == sizeof (node_t))                       /* every block requested has the size of a node */
;

/* ---- copy_anode ---- */
void place_use_c (node_t **place, node_t *node)
__CPROVER_requires (node->type != YAEP_ALT)
__CPROVER_assigns (*place)
__CPROVER_ensures (1)
;
node_t *copy_anode_c (node_t **place, node_t *anode, struct rule *rule, int disp)
__CPROVER_requires (__CPROVER_is_fresh (place, sizeof (*place)) && __CPROVER_is_fresh (anode, sizeof (*anode)) && __CPROVER_is_fresh (rule, sizeof (*rule)))
__CPROVER_requires (anode->type == YAEP_ANODE && rule->trans_len >= 0 && rule->trans_len <= TL && disp >= 0 && disp <= rule->trans_len)
__CPROVER_requires (__CPROVER_is_fresh (anode->val.anode.children, ((size_t) rule->trans_len + 1) * sizeof (node_t *)))
__CPROVER_requires (gh_ci <= (size_t) rule->trans_len && gh_allocs == 0)
__CPROVER_requires (__CPROVER_obeys_contract (parse_alloc, parse_alloc_c))
__CPROVER_assigns (*place, gh_allocs, gh_last_req)
/* one block: the node immediately followed by its trans_len + 1 child slots */
__CPROVER_ensures (gh_allocs == 1 && (size_t) gh_last_req == sizeof (node_t) + sizeof (node_t *) * ((size_t) rule->trans_len + 1))
__CPROVER_ensures (__CPROVER_return_value->type == YAEP_ANODE && __CPROVER_return_value->val.anode.name == anode->val.anode.name
                   && __CPROVER_return_value->val.anode.cost == anode->val.anode.cost)
__CPROVER_ensures (__CPROVER_return_value->val.anode.children == (node_t **) ((char *) __CPROVER_return_value + sizeof (node_t)))
/* children copied (so the NULL terminator too), except the displaced one, which is cleared */
__CPROVER_ensures (__CPROVER_return_value->val.anode.children[gh_ci] == (gh_ci == (size_t) disp ? NULL : anode->val.anode.children[gh_ci]))
;

#define GH() do { HAVOC (gh_allocs); HAVOC (gh_last_req); HAVOC (gh_place0); HAVOC (gh_ci); HAVOC (gh_was_alt); } while (0)
void h_place (void) { node_t **pl_, *n; GH (); HAVOC (n_parse_alt_nodes); HAVOC (parse_alloc); place_translation (pl_, n);
  if (gh_place0 == NULL) VACUITY_CANARY_N ("first translation"); else if (gh_was_alt) VACUITY_CANARY_N ("list extended"); else VACUITY_CANARY_N ("list started"); }
void h_copy_anode (void) { node_t **pl_, *a; struct rule *r; int d; GH (); HAVOC (parse_alloc); copy_anode (pl_, a, r, d); VACUITY_CANARY (); }

/* ---- P.step: prune_to_minimal, one level (bounded plain harness, faithful mode).  Children are leaves or ALREADY VISITED abstract
   nodes (mark -t-1 = "processed subtree of total t"), so the real recursive calls return at once: the induction hypothesis is the
   visited-node encoding.  parse_free == NULL (the list of blocks to release is T.prune's business). ---- */
#ifndef VERIF_DFCC
static void mk_leaf_or_visited (node_t *n, node_t **kids, int *total)
{
  _Bool leaf; int t;
  if (leaf) { enum yaep_tree_node_type ty; __CPROVER_assume (ty == YAEP_NIL || ty == YAEP_ERROR || ty == YAEP_TERM); n->type = ty; *total = 0; }
  else { __CPROVER_assume (t >= 0 && t <= 1000); n->type = YAEP_ANODE; n->val.anode.cost = -t - 1; kids[0] = NULL; n->val.anode.children = kids; *total = t; }
}
void h_prune_anode (void)
{
  node_t P, C[2]; node_t *pk[3], *ck0[1], *ck1[1]; int t0, t1, own, cost, nk; struct grammar G; node_t *r;
  HAVOC (G); grammar = &G; parse_free = NULL;
  mk_leaf_or_visited (&C[0], ck0, &t0); mk_leaf_or_visited (&C[1], ck1, &t1);
  __CPROVER_assume (own >= 0 && own <= 1000 && nk >= 0 && nk <= 2);
  P.type = YAEP_ANODE; P.val.anode.cost = own; P.val.anode.children = pk;
  pk[0] = nk >= 1 ? &C[0] : NULL; pk[1] = nk >= 2 ? &C[1] : NULL; pk[2] = NULL;
  HAVOC (cost);
  r = prune_to_minimal (&P, &cost);
  __CPROVER_assert (r == &P, "an abstract node is its own minimal translation");
  __CPROVER_assert (cost == own + (nk >= 1 ? t0 : 0) + (nk >= 2 ? t1 : 0), "reported cost = own cost + reported costs of the children (a revisited child reports its recorded total)");
  __CPROVER_assert (P.val.anode.cost == -cost - 1, "the node is marked visited with its total");
  __CPROVER_assert (pk[0] == (nk >= 1 ? &C[0] : NULL) && pk[1] == (nk >= 2 ? &C[1] : NULL), "children are replaced by their minimal translations (themselves)");
  VACUITY_CANARY ();
}
void h_prune_alt (void)
{
  node_t A[3], C[3]; node_t *k0[1], *k1[1], *k2[1]; int t[3], n, i, cost, min, nmin; struct grammar G; node_t *r;
  HAVOC (G); grammar = &G; parse_free = NULL;
  mk_leaf_or_visited (&C[0], k0, &t[0]); mk_leaf_or_visited (&C[1], k1, &t[1]); mk_leaf_or_visited (&C[2], k2, &t[2]);
  __CPROVER_assume (n >= 2 && n <= 3);
  for (i = 0; i < 3; i++) { A[i].type = YAEP_ALT; A[i].val.alt.node = &C[i]; A[i].val.alt.next = i + 1 < n ? &A[i + 1] : NULL; }
  min = t[0]; for (i = 1; i < n; i++) if (t[i] < min) min = t[i];
  nmin = 0; for (i = 0; i < n; i++) if (t[i] == min) nmin++;
  HAVOC (cost);
  r = prune_to_minimal (&A[0], &cost);
  __CPROVER_assert (cost == min, "an ALT list reports the minimum over its alternatives");
  if (G.one_parse_p || nmin == 1)
    {
      __CPROVER_assert (r == &C[0] || r == &C[1] || (n == 3 && r == &C[2]), "a single survivor is returned bare (no ALT node)");
      __CPROVER_assert ((r == &C[0] && t[0] == min) || (r == &C[1] && t[1] == min) || (r == &C[2] && t[2] == min), "the survivor has minimal cost");
      VACUITY_CANARY_N ("single survivor");
    }
  else
    {
      int kept = 0; node_t *a;
      __CPROVER_assert (r->type == YAEP_ALT, "several minimal alternatives stay an ALT list");
      for (a = r, i = 0; a != NULL && i < 4; a = a->val.alt.next, i++)
        {
          int j = (int) (a - A);
          __CPROVER_assert (j >= 0 && j < n && a->val.alt.node == &C[j] && t[j] == min, "every kept alternative is one of the originals at the minimum");
          kept++;
        }
      __CPROVER_assert (a == NULL && kept == nmin, "exactly the minimal alternatives are kept, list NULL-terminated");
      VACUITY_CANARY_N ("several survivors");
    }
}
/* P.restore: traverse_pruned_translation decodes the mark back to the total, once, also for a node reached twice */
void h_traverse (void)
{
  node_t P, S; node_t *pk[3], *sk[1]; int tp, ts; _Bool shared_twice;
  parse_free = NULL;
  __CPROVER_assume (tp >= 0 && tp <= 1000 && ts >= 0 && ts <= 1000);
  S.type = YAEP_ANODE; S.val.anode.cost = -ts - 1; sk[0] = NULL; S.val.anode.children = sk; S.val.anode.name = "s";
  P.type = YAEP_ANODE; P.val.anode.cost = -tp - 1; P.val.anode.children = pk; P.val.anode.name = "p";
  pk[0] = &S; pk[1] = shared_twice ? &S : NULL; pk[2] = NULL;
  traverse_pruned_translation (&P);
  __CPROVER_assert (P.val.anode.cost == tp && S.val.anode.cost == ts, "cost fields hold the totals afterwards (a node reached twice is restored once)");
  if (shared_twice) VACUITY_CANARY_N ("shared child"); else VACUITY_CANARY_N ("single child");
}
#endif

/* ---- P.step.base (DFCC): the two non-recursive cases of prune_to_minimal, full domain: a leaf costs 0; an abstract node
   that was already processed (shared between alternatives) reports its recorded total and is left alone ---- */
node_t *prune_base_c (node_t *node, int *cost)
__CPROVER_requires (__CPROVER_is_fresh (node, sizeof (*node)) && __CPROVER_is_fresh (cost, sizeof (int)) && parse_free == NULL)
__CPROVER_requires (node->type == YAEP_NIL || node->type == YAEP_ERROR || node->type == YAEP_TERM || (node->type == YAEP_ANODE && node->val.anode.cost < 0 && node->val.anode.cost > INT_MIN))   /* A-COST: totals stay below INT_MAX */
__CPROVER_assigns (*cost)
__CPROVER_ensures (__CPROVER_return_value == node)
__CPROVER_ensures (node->type == YAEP_ANODE ? *cost == -node->val.anode.cost - 1 : *cost == 0)
;
void h_prune_base (void) { node_t *n; int *c; HAVOC (parse_free); n = prune_to_minimal (n, c); if (n->type == YAEP_ANODE) VACUITY_CANARY_N ("revisited node"); else VACUITY_CANARY_N ("leaf"); }

/* (T.free is decided by the native exhaustive stand-in native/free_tree_enum.c; the CBMC harnesses did not finish) */
