/* RG.flags / RG.verdict (C10): set_empty_access_derives, set_loop_p and check_grammar on ARBITRARY small grammars built by the harness
   (real symb/rule records, real VLO descriptors laid over harness arrays so symb_get / nonterm_get run unchanged), compared with
   a specification written from the property statement: nullable / productive / reachable as least fixpoints (Kleene iteration from
   bottom), "can derive itself" as a cycle in the relation A -> B iff A : x B y with x, y nullable.  Bounded plain harness. */
#include "prelude.h"
#include "yaep_ghost.h"
#include <stdarg.h>
#ifndef NN
#define NN 2            /* nonterminals besides the axiom $S */
#endif
#ifndef NRU
#define NRU 3           /* rules besides $S : S $eof */
#endif
#define RL 2            /* longest right-hand side */
#define NS (NN + 2)     /* symbols: $S, N0.., terminal a */
int gh_raised; const char *gh_raised_name;
#undef VERIF_ERROR
#define VERIF_ERROR verif_error_va
void verif_error_va (int code, const char *fmt, ...);
#include "yaep.c"
void verif_error_va (int code, const char *fmt, ...) { va_list ap; va_start (ap, fmt); gh_raised_name = va_arg (ap, const char *); va_end (ap); gh_raised = code; __CPROVER_assume (0); }
void create_first_follow_sets_stub (void) {}

static struct symb SY[NS]; static struct symb *SYP[NS], *NTP[NN + 1], *TP[1];
static struct rule RU[NRU + 1]; static struct symb *RHS[NRU + 1][RL + 1];
static struct grammar G; static struct symbs SB; static struct rules RS;
static int lhs_of[NRU], len_of[NRU], rhs_of[NRU][RL];      /* the abstract grammar: symbol indices (0 = $S, 1..NN+... = nonterminals, NS-1 = terminal) */
static int nr;

static void build (void)
{
  int i, j;
  /* symbols: 0 axiom $S, 1..NN nonterminals (1 is the start symbol), NS-1 the terminal */
  for (i = 0; i < NS; i++) { SY[i].num = i; SY[i].repr = "x"; SYP[i] = &SY[i]; }
  for (i = 0; i <= NN; i++) { SY[i].term_p = 0; SY[i].u.nonterm.nonterm_num = i; SY[i].u.nonterm.rules = NULL; SY[i].u.nonterm.loop_p = 0; NTP[i] = &SY[i]; }
  SY[NS - 1].term_p = 1; SY[NS - 1].u.term.term_num = 0; TP[0] = &SY[NS - 1];
  SB.symbs_vlo.vlo_start = (char *) SYP; SB.symbs_vlo.vlo_free = (char *) (SYP + NS);
  SB.nonterms_vlo.vlo_start = (char *) NTP; SB.nonterms_vlo.vlo_free = (char *) (NTP + NN + 1);
  SB.terms_vlo.vlo_start = (char *) TP; SB.terms_vlo.vlo_free = (char *) (TP + 1);
  SB.n_terms = 1; SB.n_nonterms = NN + 1;
  grammar = &G; symbs_ptr = &SB; rules_ptr = &RS; G.axiom = &SY[0];
  /* rule 0: $S : N1 (the end marker is a terminal and does not matter for the flags: modelled as the terminal) */
  HAVOC (nr); __CPROVER_assume (nr >= 1 && nr <= NRU);
  RU[0].lhs = &SY[0]; RU[0].rhs_len = 2; RHS[0][0] = &SY[1]; RHS[0][1] = &SY[NS - 1]; RHS[0][2] = NULL; RU[0].rhs = RHS[0]; RU[0].num = 0;
  RU[0].lhs_next = NULL; SY[0].u.nonterm.rules = &RU[0]; RS.first_rule = &RU[0];
  for (i = 0; i < NRU; i++)
    {
      int l, n; __CPROVER_assume (l >= 1 && l <= NN && n >= 0 && n <= RL); lhs_of[i] = l; len_of[i] = n;
      for (j = 0; j < RL; j++) { int s; __CPROVER_assume (s >= 1 && s <= NS - 1); rhs_of[i][j] = s; }
      RU[i + 1].lhs = &SY[l]; RU[i + 1].rhs_len = n; RU[i + 1].num = i + 1;
      for (j = 0; j < RL; j++) RHS[i + 1][j] = j < n ? &SY[rhs_of[i][j]] : NULL; RHS[i + 1][RL] = NULL; RU[i + 1].rhs = RHS[i + 1];
    }
  for (i = 0; i <= NRU; i++) RU[i].next = (i < nr) ? &RU[i + 1] : NULL;
  for (i = nr - 1; i >= 0; i--) { RU[i + 1].lhs_next = SY[lhs_of[i]].u.nonterm.rules; SY[lhs_of[i]].u.nonterm.rules = &RU[i + 1]; }
  /* the first rule read defines the start symbol: its lhs is nonterminal 1 */
  __CPROVER_assume (lhs_of[0] == 1);
}
/* ---- specification: least fixpoints by Kleene iteration (NS rounds suffice) ---- */
static _Bool sp_empty[NS], sp_der[NS], sp_acc[NS], sp_loop[NS];
static void spec (void)
{
  int round, i, j, k; _Bool R[NS][NS];
  for (i = 0; i < NS; i++) { sp_empty[i] = 0; sp_der[i] = (i == NS - 1); sp_acc[i] = (i == 0); }
  for (round = 0; round < NS + 1; round++)
    {
      /* $S : N1 a */
      if (sp_der[1]) sp_der[0] = 1; sp_acc[1] = 1; sp_acc[NS - 1] = 1;
      for (i = 0; i < nr; i++)
        { _Bool e = 1, d = 1; for (j = 0; j < len_of[i]; j++) { e = e && sp_empty[rhs_of[i][j]]; d = d && sp_der[rhs_of[i][j]]; if (sp_acc[lhs_of[i]]) sp_acc[rhs_of[i][j]] = 1; }
          if (e) sp_empty[lhs_of[i]] = 1; if (d) sp_der[lhs_of[i]] = 1; }
    }
  /* A R B iff some rule A : x B y with x and y nullable; loop iff A R+ A */
  for (i = 0; i < NS; i++) for (j = 0; j < NS; j++) R[i][j] = 0;
  for (i = 0; i < nr; i++) for (j = 0; j < len_of[i]; j++) if (rhs_of[i][j] != NS - 1)
    { _Bool rest = 1; for (k = 0; k < len_of[i]; k++) if (k != j && !sp_empty[rhs_of[i][k]]) rest = 0; if (rest) R[lhs_of[i]][rhs_of[i][j]] = 1; }
  for (k = 0; k < NS; k++) for (i = 0; i < NS; i++) for (j = 0; j < NS; j++) if (R[i][k] && R[k][j]) R[i][j] = 1;
  for (i = 0; i < NS; i++) sp_loop[i] = R[i][i];
}
void h_flags (void)
{
  int i;
  build (); spec ();
  set_empty_access_derives ();
  set_loop_p ();
  HAVOC (i); __CPROVER_assume (i >= 0 && i < NS);
  __CPROVER_assert ((SY[i].empty_p != 0) == sp_empty[i], "empty_p: the symbol derives the empty string (least fixpoint)");
  __CPROVER_assert ((SY[i].derivation_p != 0) == sp_der[i], "derivation_p: the symbol derives a terminal string (least fixpoint)");
  __CPROVER_assert ((SY[i].access_p != 0) == sp_acc[i], "access_p: the symbol is reachable from the axiom (least fixpoint)");
  if (i <= NN) __CPROVER_assert ((SY[i].u.nonterm.loop_p != 0) == sp_loop[i], "loop_p: the nonterminal can derive itself");
  VACUITY_CANARY ();
}
/* verdicts of check_grammar given the flags */
void h_verdict (void)
{
  int strict, i; _Bool any_under = 0, any_unacc = 0, any_loop = 0;
  build (); spec ();
  for (i = 0; i <= NN; i++) { if (!sp_der[i]) any_under = 1; if (!sp_acc[i]) any_unacc = 1; if (sp_loop[i]) any_loop = 1; }
  gh_raised = 0;
  { _Bool defect = strict ? (any_under || any_unacc || any_loop) : (!sp_der[0] || any_loop);
    if (!defect) VACUITY_CANARY_N ("well-formed"); else VACUITY_CANARY_N ("defective"); }
  check_grammar (strict);
  /* normal return: none of the defects of this stage is present */
  __CPROVER_assert (strict ? (!any_under && !any_unacc && !any_loop) : (sp_der[0] && !any_loop), "check_grammar returns only for grammars without underivable / unreachable (strict) / looping nonterminals");
}
