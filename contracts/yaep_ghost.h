/* Ghost names referenced by loop contracts injected into yaep.c / sgramm.y (rule R1).
   Every spec file that includes the staged yaep.c includes this first. */
#ifndef VERIF_YAEP_GHOST_H
#define VERIF_YAEP_GHOST_H
#include <stddef.h>
size_t gh_vk;              /* ghost index into the terminal code translation vector */
int gh_rt_calls;           /* number of read_token calls so far */
int gh_rt_neg;             /* read_token has delivered a negative code */
int gh_last_code;          /* code delivered by the most recent read_token call */
int gh_adds;               /* 1 once tok_add has been called */
int gh_last_added; void *gh_last_attr;   /* arguments of the most recent tok_add call */
const char *gh_buf; size_t gh_n; int gh_ln0; size_t gh_off0;   /* description text, its size including the NUL, line number and cursor offset at entry */
#endif
