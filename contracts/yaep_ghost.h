/* Ghost names referenced by loop contracts injected into yaep.c / sgramm.y (rule R1).
   Every spec file that includes the staged yaep.c includes this first. */
#ifndef VERIF_YAEP_GHOST_H
#define VERIF_YAEP_GHOST_H
#include <stddef.h>
size_t gh_ci;              /* ghost child index (copy_anode) */
size_t gh_vk;              /* ghost index into the terminal code translation vector */
int gh_err_code;           /* code of the error exit taken */
int gh_rt_calls;           /* number of read_token calls so far */
int gh_rt_neg;             /* read_token has delivered a negative code */
int gh_last_code;          /* code delivered by the most recent read_token call */
int gh_adds;               /* 1 once tok_add has been called */
int gh_last_added; void *gh_last_attr;   /* arguments of the most recent tok_add call */
const char *gh_buf; size_t gh_n; int gh_ln0; size_t gh_off0;   /* description text, its size including the NUL, line number and cursor offset at entry */
size_t gh_w; unsigned long gh_word0;   /* ghost word index / word value before the call (UB.tset) */
/* yaep_read_grammar, first region (RG.prefix) */
struct grammar;
struct grammar *gh_g;          /* the object the API call was given */
int gh_emptied;                /* yaep_empty_grammar has run */
int gh_rt_last; const char *gh_rt_name;   /* what read_terminal delivered last */
int gh_repr_hit, gh_code_hit;  /* answers of the two lookups made for the current terminal */
const char *gh_repr_arg; int gh_code_arg;
int gh_defect;                 /* a documented defect has been delivered by the callbacks / seen by the lookups */
int gh_added; const char *gh_add_name; int gh_add_code;   /* terminals added */
#endif
