/* Ghost names referenced by loop contracts injected into yaep.c / sgramm.y (rule R1).
   Every spec file that includes the staged yaep.c includes this first. */
#ifndef VERIF_YAEP_GHOST_H
#define VERIF_YAEP_GHOST_H
#include <stddef.h>
size_t gh_ci;              /* ghost child index (copy_anode) */
size_t gh_oi;              /* ghost index into a rule's order array (rule_new_stop) */
size_t gh_si;              /* ghost index into the non-start part of the situation array (set_new_add_initial_sit) */
size_t gh_dn;              /* number of distances of the set whose hash is computed (setup_set_dists_hash) */
size_t gh_vk;              /* ghost index into the terminal code translation vector */
int gh_err_code;           /* code of the error exit taken */
int gh_rt_calls;           /* number of read_token calls so far */
int gh_rt_neg;             /* read_token has delivered a negative code */
int gh_last_code;          /* code delivered by the most recent read_token call */
int gh_adds;               /* 1 once tok_add has been called */
int gh_last_added; void *gh_last_attr;   /* arguments of the most recent tok_add call */
const char *gh_buf; size_t gh_n; int gh_ln0; size_t gh_off0;   /* description text, its size including the NUL, line number and cursor offset at entry */
size_t gh_w; unsigned long gh_word0;   /* ghost word index / word value before the call (UB.tset) */
/* yaep_read_grammar, first region (RG.prefix) */
struct grammar;
struct grammar *gh_g;          /* the object the API call was given */
int gh_emptied;                /* yaep_empty_grammar has run */
int gh_rt_last; const char *gh_rt_name;   /* what read_terminal delivered last */
int gh_repr_hit, gh_code_hit;  /* answers of the two lookups made for the current terminal */
const char *gh_repr_arg; int gh_code_arg;
int gh_defect;                 /* a documented defect has been delivered by the callbacks / seen by the lookups */
int gh_added; const char *gh_add_name; int gh_add_code;   /* terminals added */
/* yaep_read_grammar, body of the rule-intake loop (RG.rule): what the callback delivered for the current rule */
int gh_rl, gh_tl;              /* number of right-hand side names (index of the NULL) / of translation numbers (index of the first negative) */
const char **gh_rhs0;          /* the right-hand side array as delivered */
int *gh_transl;                /* the translation array as delivered (or NULL) */
const char *gh_anode;          /* the abstract node name as delivered (or NULL) */
const char *gh_lhs; int gh_cost;   /* left-hand side name and cost as delivered */
int gh_t;                      /* ghost index into the translation */
int gh_tv[8];                  /* the delivered translation numbers, by value (entries from gh_tl on: -1); the array itself is outside every frame */
#include <limits.h>
#define GH_NILT INT_MAX        /* == YAEP_NIL_TRANSLATION_NUMBER (checked by a static assertion in rgrule.spec.c) */
/* what the symbol-table and rule-storage callees were asked and answered while the current rule is taken in */
extern int gh_anyrule, gh_err_added, gh_d_cost; extern size_t gh_d_lhs, gh_d_rhs, gh_d_anode, gh_d_transl;   /* RG.rules: a rule has been taken in / the `error' terminal exists */
int gh_first;                  /* this is the first rule: $S, $eof and the start rule are made */
int gh_nfind, gh_fr_hit, gh_fr_term, gh_fr_ax, gh_fr_em; size_t gh_fr_arg;   /* lookups by name: count, and argument (its address as a number: a ghost POINTER tied to a
   string literal by an assumed equality blocks the path in cbmc 6.11) / answer of the last one */
int gh_lhs_term;               /* the left-hand side name was found as a terminal */
struct symb; struct rule;
size_t gh_cur_sym, gh_cur_lhs;   /* symbol found or made for the last name looked up / for the left-hand side (addresses as numbers, compared only) */
int gh_nadd_nt, gh_nadd_t, gh_ns_calls, gh_nsa, gh_stops;   /* calls of symb_add_nonterm, symb_add_term, rule_new_start, rule_new_symb_add, rule_new_stop */
struct rule *gh_sr;            /* the start rule $S : <start> $eof */
/* the arrays of one rule are capped at 8 entries in RG.rule: universal facts about them are written out entry by entry */
#define GH_ALL8(P) (P (0) && P (1) && P (2) && P (3) && P (4) && P (5) && P (6) && P (7))
#define GH_ANY8(P) (P (0) || P (1) || P (2) || P (3) || P (4) || P (5) || P (6) || P (7))
/* translation entry K (already processed when K < I) counts as a child: it names a right-hand side position, or is `-' in a rule with abstract node */
#define GH_CNT1(k, i) (((k) < (i)) & ((gh_tv[k] < gh_rl) | ((gh_tv[k] == GH_NILT) & (gh_anode != NULL))))
/* position E of the order array while the translation is processed up to (not including) entry i: below i; unset unless one of the processed entries names E
   (written with constant indices only: a nested symbolic index makes symex blow up) */
#define GH_NAMED1(e, k, i) (((k) < (i)) & (gh_tv[k] == (e)))
#define GH_NAMED(e, i) (GH_NAMED1 (e, 0, i) | GH_NAMED1 (e, 1, i) | GH_NAMED1 (e, 2, i) | GH_NAMED1 (e, 3, i) | GH_NAMED1 (e, 4, i) | GH_NAMED1 (e, 5, i) | GH_NAMED1 (e, 6, i) | GH_NAMED1 (e, 7, i))
#define GH_ORD(e) ((e) >= gh_rl || (rule->order[e] >= -1 && rule->order[e] < i && (GH_NAMED (e, i) | (rule->order[e] == -1))))
#define GH_CNT(i) (GH_CNT1 (0, i) + GH_CNT1 (1, i) + GH_CNT1 (2, i) + GH_CNT1 (3, i) + GH_CNT1 (4, i) + GH_CNT1 (5, i) + GH_CNT1 (6, i) + GH_CNT1 (7, i))
/* check_grammar (RG.check): the nonterminal table and what it answered last */
struct symb *gh_nts; int gh_nnt, gh_ni;     /* harness array of nonterminal records, their number, ghost index */
struct symb *gh_start;                      /* start symbol of the user grammar */
int gh_ng_hit, gh_ng_der, gh_ng_acc, gh_ng_loop;
extern int gh_flags1, gh_flags2, gh_ff;
#endif
