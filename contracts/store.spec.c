/* G.free.* / G.fresh.* (C14, C17): the storage layer of a grammar object: symb_fin, term_set_fin, rule_fin release
   everything exactly once; symb_empty, term_set_empty, rule_empty, yaep_empty_grammar leave empty containers.
   hashtab.c is linked (real delete_hash_table / empty_hash_table), allocation is the model (real free, so CBMC's own
   double-free / invalid-free checks apply), the object stack walkers are contracts with ghost counters. */
#include "prelude.h"
#include "yaep_ghost.h"
#include "objstack.h"
int gh_os_deleted, gh_os_emptied;     /* calls of _OS_delete_function / _OS_empty_function */
os_t *gh_os;                          /* the object stack they must be applied to */
int gh_emptied_symbs, gh_emptied_tsets, gh_emptied_rules;
/* as in the shipped build, assertions are off in yaep.c (see symtab.spec.c) */
#define NDEBUG 1
#include "yaep.c"
#include "alloc_model.h"

void os_delete_c (os_t *os)
__CPROVER_requires (os == gh_os && gh_os_deleted == 0)
__CPROVER_assigns (gh_os_deleted)
__CPROVER_ensures (gh_os_deleted == 1)
;
void os_empty_c (os_t *os)
__CPROVER_requires (os == gh_os && gh_os_emptied == 0)
__CPROVER_assigns (gh_os_emptied)
__CPROVER_ensures (gh_os_emptied == 1)
;
#define HT_OK(h) (__CPROVER_is_fresh (h, sizeof (*(h))) && (h)->size >= 1 && (h)->size <= 4 && __CPROVER_is_fresh ((h)->entries, (h)->size * sizeof (hash_table_entry_t)) \
                  && (h)->alloc != NULL)
#define VLO_OK(v) (__CPROVER_is_fresh ((v).vlo_start, 8) && (v).vlo_alloc != NULL \
                   && __CPROVER_pointer_in_range_dfcc ((v).vlo_start, (v).vlo_free, (v).vlo_start + 8) && (v).vlo_boundary == (v).vlo_start + 8)

/* ---- symb_fin ---- */
void symb_fin_c (struct symbs *symbs)
__CPROVER_requires ((__CPROVER_is_fresh (symbs, sizeof (*symbs)) && symbs_ptr == symbs && gh_os == &symbs->symbs_os && gh_os_deleted == 0))
__CPROVER_requires ((grammar != NULL && grammar->alloc != NULL))
__CPROVER_requires ((VLO_OK (symbs->symbs_vlo) && VLO_OK (symbs->terms_vlo) && VLO_OK (symbs->nonterms_vlo)))
__CPROVER_requires ((HT_OK (symbs->repr_to_symb_tab) && HT_OK (symbs->code_to_symb_tab)))
__CPROVER_requires (symbs->symb_code_trans_vect == NULL || __CPROVER_is_fresh (symbs->symb_code_trans_vect, 16))
__CPROVER_assigns (gh_os_deleted, symbs->symbs_vlo.vlo_start, symbs->terms_vlo.vlo_start, symbs->nonterms_vlo.vlo_start)
__CPROVER_frees (symbs, symbs->symbs_vlo.vlo_start, symbs->terms_vlo.vlo_start, symbs->nonterms_vlo.vlo_start, symbs->symb_code_trans_vect,
                 symbs->repr_to_symb_tab, symbs->repr_to_symb_tab->entries, symbs->code_to_symb_tab, symbs->code_to_symb_tab->entries)
__CPROVER_ensures ((__CPROVER_was_freed (symbs) && gh_os_deleted == 1))
__CPROVER_ensures ((__CPROVER_was_freed (__CPROVER_old (symbs->symbs_vlo.vlo_start)) && __CPROVER_was_freed (__CPROVER_old (symbs->terms_vlo.vlo_start))
                   && __CPROVER_was_freed (__CPROVER_old (symbs->nonterms_vlo.vlo_start))))
__CPROVER_ensures ((__CPROVER_was_freed (__CPROVER_old (symbs->repr_to_symb_tab)) && __CPROVER_was_freed (__CPROVER_old (symbs->repr_to_symb_tab->entries))
                   && __CPROVER_was_freed (__CPROVER_old (symbs->code_to_symb_tab)) && __CPROVER_was_freed (__CPROVER_old (symbs->code_to_symb_tab->entries))))
__CPROVER_ensures (__CPROVER_old (symbs->symb_code_trans_vect) == NULL || __CPROVER_was_freed (__CPROVER_old (symbs->symb_code_trans_vect)))
;
/* ---- term_set_fin ---- */
void term_set_fin_c (struct term_sets *ts)
__CPROVER_requires ((__CPROVER_is_fresh (ts, sizeof (*ts)) && gh_os == &ts->term_set_os && gh_os_deleted == 0 && grammar != NULL && grammar->alloc != NULL))
__CPROVER_requires ((VLO_OK (ts->tab_term_set_vlo) && HT_OK (ts->term_set_tab)))
__CPROVER_assigns (gh_os_deleted, ts->tab_term_set_vlo.vlo_start)
__CPROVER_frees (ts, ts->tab_term_set_vlo.vlo_start, ts->term_set_tab, ts->term_set_tab->entries)
__CPROVER_ensures ((__CPROVER_was_freed (ts) && gh_os_deleted == 1 && __CPROVER_was_freed (__CPROVER_old (ts->tab_term_set_vlo.vlo_start))
                   && __CPROVER_was_freed (__CPROVER_old (ts->term_set_tab)) && __CPROVER_was_freed (__CPROVER_old (ts->term_set_tab->entries))))
;
/* ---- rule_fin ---- */
void rule_fin_c (struct rules *r)
__CPROVER_requires ((__CPROVER_is_fresh (r, sizeof (*r)) && gh_os == &r->rules_os && gh_os_deleted == 0 && grammar != NULL && grammar->alloc != NULL))
__CPROVER_assigns (gh_os_deleted)
__CPROVER_frees (r)
__CPROVER_ensures ((__CPROVER_was_freed (r) && gh_os_deleted == 1))
;

/* ---- the *_empty functions: what a redefinition starts from (G.fresh) ---- */
size_t gh_slot;
void symb_empty_c (struct symbs *symbs)
__CPROVER_requires ((__CPROVER_is_fresh (symbs, sizeof (*symbs)) && symbs_ptr == symbs && gh_os == &symbs->symbs_os && gh_os_emptied == 0))
__CPROVER_requires ((grammar != NULL && grammar->alloc != NULL))
__CPROVER_requires ((VLO_OK (symbs->symbs_vlo) && VLO_OK (symbs->terms_vlo) && VLO_OK (symbs->nonterms_vlo)))
__CPROVER_requires ((HT_OK (symbs->repr_to_symb_tab) && HT_OK (symbs->code_to_symb_tab)))
__CPROVER_requires (symbs->symb_code_trans_vect == NULL || __CPROVER_is_fresh (symbs->symb_code_trans_vect, 16))
__CPROVER_assigns (gh_os_emptied, symbs->symb_code_trans_vect, symbs->symbs_vlo.vlo_free, symbs->terms_vlo.vlo_free, symbs->nonterms_vlo.vlo_free,
                   symbs->n_terms, symbs->n_nonterms,
                   symbs->repr_to_symb_tab->number_of_elements, symbs->repr_to_symb_tab->number_of_deleted_elements, __CPROVER_object_whole (symbs->repr_to_symb_tab->entries),
                   symbs->code_to_symb_tab->number_of_elements, symbs->code_to_symb_tab->number_of_deleted_elements, __CPROVER_object_whole (symbs->code_to_symb_tab->entries))
__CPROVER_frees (symbs->symb_code_trans_vect)
/* no symbol, no terminal, no code vector, both tables empty, the three reference arrays empty, symbol storage emptied once */
__CPROVER_ensures ((symbs->n_terms == 0 && symbs->n_nonterms == 0 && symbs->symb_code_trans_vect == NULL && gh_os_emptied == 1))
__CPROVER_ensures ((symbs->symbs_vlo.vlo_free == symbs->symbs_vlo.vlo_start && symbs->terms_vlo.vlo_free == symbs->terms_vlo.vlo_start
                   && symbs->nonterms_vlo.vlo_free == symbs->nonterms_vlo.vlo_start))
__CPROVER_ensures ((symbs->repr_to_symb_tab->number_of_elements == 0 && symbs->code_to_symb_tab->number_of_elements == 0))
__CPROVER_ensures (gh_slot >= symbs->repr_to_symb_tab->size || symbs->repr_to_symb_tab->entries[gh_slot] == NULL)
__CPROVER_ensures (gh_slot >= symbs->code_to_symb_tab->size || symbs->code_to_symb_tab->entries[gh_slot] == NULL)
__CPROVER_ensures (__CPROVER_old (symbs->symb_code_trans_vect) == NULL || __CPROVER_was_freed (__CPROVER_old (symbs->symb_code_trans_vect)))
;
void term_set_empty_c (struct term_sets *ts)
__CPROVER_requires ((__CPROVER_is_fresh (ts, sizeof (*ts)) && gh_os == &ts->term_set_os && gh_os_emptied == 0))
__CPROVER_requires ((VLO_OK (ts->tab_term_set_vlo) && HT_OK (ts->term_set_tab)))
__CPROVER_assigns (gh_os_emptied, ts->tab_term_set_vlo.vlo_free, ts->n_term_sets, ts->n_term_sets_size,
                   ts->term_set_tab->number_of_elements, ts->term_set_tab->number_of_deleted_elements, __CPROVER_object_whole (ts->term_set_tab->entries))
__CPROVER_ensures ((ts->n_term_sets == 0 && ts->n_term_sets_size == 0 && gh_os_emptied == 1
                   && ts->tab_term_set_vlo.vlo_free == ts->tab_term_set_vlo.vlo_start && ts->term_set_tab->number_of_elements == 0))
__CPROVER_ensures (gh_slot >= ts->term_set_tab->size || ts->term_set_tab->entries[gh_slot] == NULL)
;
void rule_empty_c (struct rules *r)
__CPROVER_requires ((__CPROVER_is_fresh (r, sizeof (*r)) && gh_os == &r->rules_os && gh_os_emptied == 0))
__CPROVER_assigns (gh_os_emptied, r->first_rule, r->curr_rule, r->n_rules, r->n_rhs_lens)
__CPROVER_ensures ((r->first_rule == NULL && r->curr_rule == NULL && r->n_rules == 0 && r->n_rhs_lens == 0 && gh_os_emptied == 1))
;
/* yaep_empty_grammar: all three, on the CURRENT grammar */
void rule_empty_use_c (struct rules *r) __CPROVER_requires (grammar != NULL && r == grammar->rules_ptr && gh_emptied_rules == 0)
  __CPROVER_assigns (gh_emptied_rules) __CPROVER_ensures (gh_emptied_rules == 1);
void term_set_empty_use_c (struct term_sets *t) __CPROVER_requires (grammar != NULL && t == grammar->term_sets_ptr && gh_emptied_tsets == 0)
  __CPROVER_assigns (gh_emptied_tsets) __CPROVER_ensures (gh_emptied_tsets == 1);
void symb_empty_use_c (struct symbs *s) __CPROVER_requires (grammar != NULL && s == grammar->symbs_ptr && (s == NULL || symbs_ptr == s) && gh_emptied_symbs == 0)
  __CPROVER_assigns (gh_emptied_symbs) __CPROVER_ensures (gh_emptied_symbs == 1);
void empty_grammar_c (void)
__CPROVER_requires (grammar != NULL && symbs_ptr == grammar->symbs_ptr && gh_emptied_rules == 0 && gh_emptied_tsets == 0 && gh_emptied_symbs == 0)
__CPROVER_assigns (gh_emptied_rules, gh_emptied_tsets, gh_emptied_symbs)
__CPROVER_ensures (gh_emptied_rules == 1 && gh_emptied_tsets == 1 && gh_emptied_symbs == 1)
;

#define GH() do { HAVOC (gh_os_deleted); HAVOC (gh_os_emptied); HAVOC (gh_os); HAVOC (gh_slot); HAVOC (gh_emptied_symbs); HAVOC (gh_emptied_tsets); HAVOC (gh_emptied_rules); } while (0)
static void world (void)
{
  GH (); HAVOC (symbs_ptr); HAVOC (term_sets_ptr); HAVOC (rules_ptr);
  grammar = malloc (sizeof (struct grammar)); __CPROVER_assume (grammar != NULL);
}
void h_symb_fin (void) { struct symbs *s; world (); symb_fin (s); VACUITY_CANARY (); }
void h_term_set_fin (void) { struct term_sets *s; world (); term_set_fin (s); VACUITY_CANARY (); }
void h_rule_fin (void) { struct rules *s; world (); rule_fin (s); VACUITY_CANARY (); }
void h_symb_empty (void) { struct symbs *s; world (); symb_empty (s); VACUITY_CANARY (); }
void h_term_set_empty (void) { struct term_sets *s; world (); term_set_empty (s); VACUITY_CANARY (); }
void h_rule_empty (void) { struct rules *s; world (); rule_empty (s); VACUITY_CANARY (); }
void h_empty_grammar (void) { world (); yaep_empty_grammar (); VACUITY_CANARY (); }
