/* D.codes / D.replay / UB.msg.arg (C11, C12): the tail of set_sgrammar (rule R4: duplicate elimination and implicit terminal
   codes) on at most NR records, and the replay callbacks sread_terminal / sread_rule.  Faithful mode, plain bounded harnesses. */
#include "prelude.h"
#include "yaep_ghost.h"
#include <stdarg.h>
#include <setjmp.h>
#ifndef NR
#define NR 3
#endif
#define QSORT_MAX NR
#include "qsort_model.h"
#define qsort verif_qsort
int gh_raised;           /* code of the error raised (0: none) */
/* error exits of the region: checked model of the variadic yaep_error call (this spec binds VERIF_ERROR itself) */
#undef VERIF_ERROR
#define VERIF_ERROR verif_error_va
void verif_error_va (int code, const char *fmt, ...);
#include "yaep.c"
#include "r4_codes.inc"

/* every %s argument of an error message must be a NUL-terminated string inside its object (C12: vsnprintf reads it to the NUL) */
static void check_cstr (const char *a)
{
  size_t room = __CPROVER_OBJECT_SIZE (a) - __CPROVER_POINTER_OFFSET (a), k; _Bool found = 0;
  for (k = 0; k < room && k < 124; k++) if (a[k] == '\0') { found = 1; break; }
  __CPROVER_assert (found, "string argument of the error message is NUL-terminated inside its object");
}
void verif_error_va (int code, const char *fmt, ...)
{
  va_list ap; const char *p;
  va_start (ap, fmt);
  for (p = fmt; *p != '\0'; p++)
    if (p[0] == '%' && p[1] == 's') { check_cstr (va_arg (ap, const char *)); break; }
    else if (p[0] == '%' && p[1] == 'd') (void) va_arg (ap, int);
  va_end (ap);
  gh_raised = code;
  __CPROVER_assume (0);            /* yaep_error does not return (API.err.raise) */
}

static char NAMES[2][2] = {"A", "B"};
void h_codes (void)
{
  struct sterm R[NR]; int n, i, k, rc; int name_of[NR], code_of[NR];
  __CPROVER_assume (n >= 1 && n <= NR);
  for (i = 0; i < NR; i++)
    { int b; int c; __CPROVER_assume (b == 0 || b == 1); __CPROVER_assume (c == -1 || (c >= 0 && c <= 300)); name_of[i] = b; code_of[i] = c; R[i].repr = NAMES[b]; R[i].code = c; R[i].num = i; }
  sterms.vlo_start = (char *) R; sterms.vlo_free = (char *) (R + n); sterms.vlo_boundary = (char *) (R + NR);
  gh_raised = 0;
  rc = verif_sgrammar_tail (256);
  /* normal return */
  {
    int m = (int) ((sterms.vlo_free - sterms.vlo_start) / sizeof (struct sterm)); int a, b2;
    __CPROVER_assert (rc == 0 && m >= 1 && m <= n, "returns 0 with between 1 and n records");
    HAVOC (a); HAVOC (b2); __CPROVER_assume (a >= 0 && a < m && b2 >= 0 && b2 < m && a != b2);
    __CPROVER_assert (strcmp (R[a].repr, R[b2].repr) != 0, "one record per name is left");
    __CPROVER_assert (R[a].code >= 0, "every terminal has a code afterwards");
    /* implicit codes: from 256 upwards, distinct, increasing in order of first appearance */
    {
      _Bool a_impl = 1, b_impl = 1;
      for (k = 0; k < n; k++) { if (name_of[k] == (R[a].repr == NAMES[1]) && code_of[k] != -1) a_impl = 0; if (name_of[k] == (R[b2].repr == NAMES[1]) && code_of[k] != -1) b_impl = 0; }
      if (a_impl) __CPROVER_assert (R[a].code >= 256, "a terminal never given an explicit code gets a free code from 256 upwards");
      if (a_impl) __CPROVER_assert (R[a].code != R[b2].code, "the code chosen for a terminal without explicit code is FREE: no other terminal has it, explicit codes included");
      if (a_impl && b_impl) __CPROVER_assert (R[a].code != R[b2].code && ((R[a].num < R[b2].num) == (R[a].code < R[b2].code)), "implicit codes are distinct and increase in order of appearance");
      if (!a_impl)
        { /* a name whose declarations all carry the same explicit code keeps it */
          int e = -1; _Bool same = 1; for (k = 0; k < n; k++) if (name_of[k] == (R[a].repr == NAMES[1])) { if (code_of[k] == -1) same = 0; else if (e == -1) e = code_of[k]; else if (e != code_of[k]) same = 0; }
          if (same) __CPROVER_assert (R[a].code == e, "repeated declaration with the same explicit code is harmless: the code is kept");
        }
    }
    VACUITY_CANARY_N ("codes assigned");
  }
}
/* same name with two different explicit codes must be rejected */
void h_codes_conflict (void)
{
  struct sterm R[2]; int c0, c1;
  __CPROVER_assume (c0 >= 0 && c1 >= 0 && c0 != c1);
  R[0].repr = NAMES[0]; R[0].code = c0; R[0].num = 0; R[1].repr = NAMES[0]; R[1].code = c1; R[1].num = 1;
  sterms.vlo_start = (char *) R; sterms.vlo_free = (char *) (R + 2); sterms.vlo_boundary = (char *) (R + 2);
  VACUITY_CANARY ();
  verif_sgrammar_tail (256);
  __CPROVER_assert (0, "same name with different explicit codes is reported (YAEP_REPEATED_TERM_CODE), the call does not return normally");
}
/* UB.msg.arg: the name put into that message may be longer than the local buffer it is copied to */
void h_codes_longname (void)
{
  struct sterm R[2]; char *name; size_t len;
  __CPROVER_assume (len >= 1 && len <= 120);
  name = malloc (len + 1); __CPROVER_assume (name != NULL); name[len] = '\0';
  { size_t q; HAVOC (q); __CPROVER_assume (q < len); __CPROVER_assume (name[q] != '\0'); }
  R[0].repr = name; R[0].code = 1; R[0].num = 0; R[1].repr = name; R[1].code = 2; R[1].num = 1;
  sterms.vlo_start = (char *) R; sterms.vlo_free = (char *) (R + 2); sterms.vlo_boundary = (char *) (R + 2);
  VACUITY_CANARY ();
  verif_sgrammar_tail (256);
}

/* D.replay: the callbacks hand record i over unchanged and return NULL after the last one */
void h_sread_terminal (void)
{
  struct sterm R[4]; int n, code; const char *nm; int i0;
  __CPROVER_assume (n >= 0 && n <= 4); HAVOC (nsterm); __CPROVER_assume (nsterm >= 0 && nsterm <= n); i0 = nsterm; HAVOC (code);
  sterms.vlo_start = (char *) R; sterms.vlo_free = (char *) (R + n); sterms.vlo_boundary = (char *) (R + 4);
  nm = sread_terminal (&code);
  if (i0 == n) { __CPROVER_assert (nm == NULL && nsterm == i0, "NULL after the last record"); VACUITY_CANARY_N ("end"); }
  else { __CPROVER_assert (nm == R[i0].repr && code == R[i0].code && nsterm == i0 + 1, "record i delivered unchanged, cursor advanced by one"); VACUITY_CANARY_N ("record"); }
}
void h_sread_rule (void)
{
  struct srule R[4]; int n, cost, i0; const char *lhs; const char **rhs; const char *an; int *tr;
  __CPROVER_assume (n >= 0 && n <= 4); HAVOC (nsrule); __CPROVER_assume (nsrule >= 0 && nsrule <= n); i0 = nsrule;
  srules.vlo_start = (char *) R; srules.vlo_free = (char *) (R + n); srules.vlo_boundary = (char *) (R + 4);
  lhs = sread_rule (&rhs, &an, &cost, &tr);
  if (i0 == n) { __CPROVER_assert (lhs == NULL && nsrule == i0, "NULL after the last rule"); VACUITY_CANARY_N ("end"); }
  else { __CPROVER_assert (lhs == R[i0].lhs && rhs == (const char **) R[i0].rhs && an == R[i0].anode && cost == R[i0].anode_cost && tr == R[i0].trans && nsrule == i0 + 1,
                           "rule i delivered unchanged, cursor advanced by one"); VACUITY_CANARY_N ("rule"); }
}
