/* RG.rules (C10, C14): the middle region of yaep_read_grammar (rule R8: the error symbol, then the rule-intake loop with its body replaced
   by a call of the function rule R7 cuts out, which RG.rule proves) under contract.  The reserved terminal `error' is looked up first
   (FIXED_NAME_USAGE only if that name exists), then added with its reserved code; $S and $eof start out absent; every rule the callback
   delivers is handed to the body exactly as delivered, on an object that is still marked undefined; the loop ends at the callback's first
   NULL.  On normal end: $S exists iff at least one rule was delivered (what RG.tail's NO_RULES test relies on).  The loop is closed by
   its contract; it has no variant: how many rules there are is the callback's decision (termination not claimed). */
#include "prelude.h"
#include "yaep_ghost.h"
#include "yaep.c"
#include "r7_rg_rule.inc"
#include "r8_rg_rules.inc"
#ifdef VERIF_DFCC
void verif_error_exit (int code) { __CPROVER_assume (0); }
#endif
#define IS_ERROR_NAME(s) ((s)[0] == 'e' && (s)[1] == 'r' && (s)[2] == 'r' && (s)[3] == 'o' && (s)[4] == 'r' && (s)[5] == '\0')
size_t gh_d_lhs, gh_d_rhs, gh_d_anode, gh_d_transl; int gh_d_cost;     /* what the callback delivered last (addresses as numbers: compared only) */
int gh_err_found, gh_err_added;     /* the lookup of `error' hit / the terminal `error' has been added */
void err_loop_c (int code)
__CPROVER_requires (grammar == gh_g && grammar->undefined_p == 1)
__CPROVER_requires (code == YAEP_FIXED_NAME_USAGE && gh_err_found == 1 && gh_err_added == 0)       /* the only error exit of the region itself: the name `error' is taken */
__CPROVER_assigns (gh_err_code)
__CPROVER_ensures (0)
;
struct symb *find_repr3_c (const char *repr)
__CPROVER_requires (grammar == gh_g && IS_ERROR_NAME (repr) && gh_err_added == 0)
__CPROVER_assigns (gh_err_found)
__CPROVER_ensures (gh_err_found == (__CPROVER_return_value != NULL))
;
/* A7': negative codes are never in the table at this point (RG.prefix adds only codes >= 0 after emptying the object) */
struct symb *find_code3_c (int code)
__CPROVER_requires (grammar == gh_g && code == TERM_ERROR_CODE && gh_err_found == 0)
__CPROVER_assigns ()
__CPROVER_ensures (__CPROVER_return_value == NULL)
;
struct symb *add_term3_c (const char *name, int code)
__CPROVER_requires (grammar == gh_g && grammar->undefined_p == 1 && IS_ERROR_NAME (name) && code == TERM_ERROR_CODE && gh_err_found == 0 && gh_err_added == 0)
__CPROVER_assigns (gh_err_added)
__CPROVER_ensures (__CPROVER_is_fresh (__CPROVER_return_value, sizeof (struct symb)))
__CPROVER_ensures (__CPROVER_return_value->term_p == 1 && __CPROVER_return_value->u.term.code == code && __CPROVER_return_value->u.term.term_num >= 0 && gh_err_added == 1)
;
/* the caller's callback: runs on an object that is marked undefined and already has its `error' terminal; publishes what it delivered */
const char *read_rule_c (const char ***rhs, const char **abs_node, int *anode_cost, int **transl)
__CPROVER_requires (grammar == gh_g && grammar->undefined_p == 1 && gh_err_added == 1)
__CPROVER_assigns (*rhs, *abs_node, *anode_cost, *transl, gh_d_lhs, gh_d_rhs, gh_d_anode, gh_d_cost, gh_d_transl)
__CPROVER_ensures (gh_d_lhs == (size_t) __CPROVER_return_value && gh_d_rhs == (size_t) *rhs && gh_d_anode == (size_t) *abs_node && gh_d_cost == *anode_cost && gh_d_transl == (size_t) *transl)
{ const char *r; const char **a; const char *b; int c; int *d; *rhs = a; *abs_node = b; *anode_cost = c; *transl = d; gh_d_lhs = (size_t) r; gh_d_rhs = (size_t) a; gh_d_anode = (size_t) b; gh_d_cost = c; gh_d_transl = (size_t) d; return r; }
const char *(*keep_rr) (const char ***, const char **, int *, int **) = read_rule_c;
/* the loop body as RG.rule proves it, reduced to what the loop needs: it gets exactly what was delivered; afterwards $S and $eof exist; the
   start symbol is set by the first rule and kept by the later ones */
int gh_anyrule;
void rg_rule_use_c (const char *lhs, const char **rhs, const char *anode, int anode_cost, int *transl, struct symb **start_io)
__CPROVER_requires (grammar == gh_g && grammar->undefined_p == 1 && gh_err_added == 1 && lhs != NULL)
__CPROVER_requires ((size_t) lhs == gh_d_lhs && (size_t) rhs == gh_d_rhs && (size_t) anode == gh_d_anode && anode_cost == gh_d_cost && (size_t) transl == gh_d_transl)
__CPROVER_requires ((grammar->axiom == NULL) == (grammar->end_marker == NULL) && (gh_anyrule == 0) == (grammar->axiom == NULL))
__CPROVER_assigns (grammar->axiom, grammar->end_marker, *start_io, gh_anyrule)
__CPROVER_ensures (grammar->axiom != NULL && grammar->end_marker != NULL && gh_anyrule == 1)
__CPROVER_ensures (__CPROVER_old (gh_anyrule) == 0 ? *start_io != NULL : (grammar->axiom == __CPROVER_old (grammar->axiom) && grammar->end_marker == __CPROVER_old (grammar->end_marker) && *start_io == __CPROVER_old (*start_io)))
;
struct symb *rg_rules_c (const char *(*read_rule) (const char ***rhs, const char **abs_node, int *anode_cost, int **transl))
__CPROVER_requires (grammar == gh_g && grammar != NULL && grammar->undefined_p == 1 && gh_err_found == 0 && gh_err_added == 0 && gh_anyrule == 0)
__CPROVER_requires (__CPROVER_obeys_contract (read_rule, read_rule_c))
__CPROVER_assigns (grammar->term_error, grammar->term_error_num, grammar->axiom, grammar->end_marker, gh_err_found, gh_err_added, gh_anyrule, gh_d_lhs, gh_d_rhs, gh_d_anode, gh_d_cost, gh_d_transl, gh_err_code)
/* normal end: `error' is a terminal of the grammar with the reserved code, its number is cached; the callback has said NULL */
__CPROVER_ensures (gh_err_added == 1 && grammar->term_error != NULL && grammar->term_error->term_p == 1 && grammar->term_error->u.term.code == TERM_ERROR_CODE
                   && grammar->term_error_num == grammar->term_error->u.term.term_num && gh_d_lhs == 0)
/* $S and $eof exist iff a rule was delivered; then the start symbol is known */
__CPROVER_ensures ((grammar->axiom == NULL) == (gh_anyrule == 0) && (grammar->end_marker == NULL) == (gh_anyrule == 0) && (gh_anyrule == 0 || __CPROVER_return_value != NULL))
;
void h_rg_rules (void)
{
  const char *(*rr) (const char ***, const char **, int *, int **);
  HAVOC (gh_err_found); HAVOC (gh_err_added); HAVOC (gh_anyrule); HAVOC (gh_d_lhs); HAVOC (gh_d_rhs); HAVOC (gh_d_anode); HAVOC (gh_d_cost); HAVOC (gh_d_transl); HAVOC (gh_err_code);
  grammar = malloc (sizeof (struct grammar)); __CPROVER_assume (grammar != NULL); gh_g = grammar;
  verif_rg_rules (rr);
  if (gh_anyrule) VACUITY_CANARY_N ("rules delivered"); else VACUITY_CANARY_N ("no rule");
}
