/* UB.lex / D.lex (C12, C11): the hand-written lexer of the description language (sgramm.y yylex) under contract.
   STATED DROP, for this obligation set only: the token-text accumulation macros on the object stack `stoks'
   (OS_TOP_ADD_BYTE / OS_TOP_BEGIN / OS_TOP_FINISH / OS_TOP_NULLIFY) are redefined as no-ops - the byte writes are the business
   of OS.top.* (C19); with the object stack inside every loop invariant the run does not finish.  sprintf into the local
   message buffer of the "invalid input character" branch is swallowed; strcmp is replaced by a contract. */
#include "prelude.h"
#include "yaep_ghost.h"
#include "objstack.h"
char gh_tokbuf[8];
int gh_err_code;

#undef OS_TOP_ADD_BYTE
#define OS_TOP_ADD_BYTE(os, b) ((void) (b))
#undef OS_TOP_BEGIN
#define OS_TOP_BEGIN(os) ((void *) gh_tokbuf)
#undef OS_TOP_FINISH
#define OS_TOP_FINISH(os) ((void) 0)
#undef OS_TOP_NULLIFY
#define OS_TOP_NULLIFY(os) ((void) 0)
#define sprintf(...) verif_sink ()
#include "ctype_model.h"
/* as in the shipped build, assertions are off in yaep.c (see symtab.spec.c) */
#define NDEBUG 1
#include "yaep.c"
#ifdef VERIF_DFCC
void verif_error_exit (int code) { __CPROVER_assume (0); }
#endif
#ifndef LEXN
#define LEXN 16
#endif
#define OFF(p) ((size_t) __CPROVER_POINTER_OFFSET (p))

void err_lex_c (int code)
__CPROVER_requires (code == YAEP_DESCRIPTION_SYNTAX_ERROR_CODE)
__CPROVER_requires (ln >= 1 && ln <= gh_ln0 + (int) OFF (curr_ch))       /* C11: the reported line number lies inside the text */
__CPROVER_assigns (gh_err_code)
__CPROVER_ensures (0)
;
int strcmp_c (const char *a, const char *b)
__CPROVER_assigns ()
__CPROVER_ensures (1)
;
int yylex_c (void)
__CPROVER_requires (__CPROVER_same_object (curr_ch, gh_buf) && gh_off0 == OFF (curr_ch) && gh_off0 <= gh_n - 1)
__CPROVER_requires (gh_n >= 1 && gh_n <= LEXN && gh_buf[gh_n - 1] == '\0')
__CPROVER_requires (ln == gh_ln0 && ln >= 1 && ln <= 1000000)
__CPROVER_assigns (curr_ch, ln, yaep_yylval, gh_err_code)
/* the cursor never leaves the text: after a token it is at or before the terminating NUL, after end-of-text just behind it */
__CPROVER_ensures (__CPROVER_same_object (curr_ch, gh_buf) && OFF (curr_ch) >= gh_off0)
__CPROVER_ensures (__CPROVER_return_value == 0 ? (OFF (curr_ch) <= gh_n && gh_buf[OFF (curr_ch) - 1] == '\0') : OFF (curr_ch) <= gh_n - 1)
/* line counter = newlines consumed (bounded by the characters consumed) */
__CPROVER_ensures (ln >= gh_ln0 && ln <= gh_ln0 + (int) (OFF (curr_ch) - gh_off0))
/* token kinds */
__CPROVER_ensures (__CPROVER_return_value == 0 || __CPROVER_return_value == '=' || __CPROVER_return_value == '#' || __CPROVER_return_value == '|'
                   || __CPROVER_return_value == ';' || __CPROVER_return_value == '-' || __CPROVER_return_value == '(' || __CPROVER_return_value == ')'
                   || __CPROVER_return_value == IDENT || __CPROVER_return_value == SEM_IDENT || __CPROVER_return_value == CHAR
                   || __CPROVER_return_value == NUMBER || __CPROVER_return_value == TERM)
/* token-level meaning by the first character at the cursor */
__CPROVER_ensures ((gh_buf[gh_off0] == '=' || gh_buf[gh_off0] == '#' || gh_buf[gh_off0] == '|' || gh_buf[gh_off0] == ';' || gh_buf[gh_off0] == '-'
                    || gh_buf[gh_off0] == '(' || gh_buf[gh_off0] == ')') ==> (__CPROVER_return_value == gh_buf[gh_off0] && OFF (curr_ch) == gh_off0 + 1))
__CPROVER_ensures (gh_buf[gh_off0] == '\0' ==> __CPROVER_return_value == 0)
__CPROVER_ensures (gh_buf[gh_off0] == '\'' ==> (__CPROVER_return_value == CHAR && OFF (curr_ch) == gh_off0 + 3 && gh_buf[gh_off0 + 1] != '\0' && gh_buf[gh_off0 + 2] == '\''))
__CPROVER_ensures ((gh_buf[gh_off0] >= '0' && gh_buf[gh_off0] <= '9') ==> __CPROVER_return_value == NUMBER)
__CPROVER_ensures (((gh_buf[gh_off0] >= 'a' && gh_buf[gh_off0] <= 'z') || (gh_buf[gh_off0] >= 'A' && gh_buf[gh_off0] <= 'Z') || gh_buf[gh_off0] == '_')
                   ==> (__CPROVER_return_value == IDENT || __CPROVER_return_value == SEM_IDENT || __CPROVER_return_value == TERM))
__CPROVER_ensures (__CPROVER_return_value == NUMBER ==> yaep_yylval.num >= 0)
;
void h_yylex (void)
{
  size_t n, off; char *b; int rc;
  HAVOC (gh_err_code); HAVOC (ln); HAVOC (yaep_yylval);
  __CPROVER_assume (n >= 1 && n <= LEXN);
  b = malloc (n); __CPROVER_assume (b != NULL);       /* text buffer supplied by the harness (is_fresh is reliable for parameters only) */
  b[n - 1] = '\0';
  __CPROVER_assume (off <= n - 1);
  gh_buf = b; gh_n = n; curr_ch = b + off; gh_off0 = off; gh_ln0 = ln;
  rc = yylex ();
  if (rc == 0) VACUITY_CANARY_N ("end of text"); else if (rc == NUMBER) VACUITY_CANARY_N ("number");
  else if (rc == CHAR) VACUITY_CANARY_N ("character constant"); else if (rc == SEM_IDENT) VACUITY_CANARY_N ("lhs identifier");
  else if (rc == IDENT || rc == TERM) VACUITY_CANARY_N ("identifier"); else VACUITY_CANARY_N ("punctuation");
}
