/* RG.tail (C10, C14 G.undef): the last region of yaep_read_grammar (rule R6) under contract: NO_RULES only when no rule was read; the
   implicit rule `$S : error $eof' is added iff no rule of the start symbol begins with `error'; the grammar is checked, then the code
   vector is built, and only then - as the last action - the object is marked defined.  Bounded in the number of rules of the start
   symbol (list walk unwound); everything else symbolic. */
#include "prelude.h"
#include "yaep_ghost.h"
int gh_checked, gh_strict, gh_finished, gh_impl, gh_impl_syms, gh_impl_stop;
struct rule;
struct rule *gh_impl_rule;
#include "yaep.c"
#include "r6_rg_tail.inc"
#ifdef VERIF_DFCC
void verif_error_exit (int code) { __CPROVER_assume (0); }
#endif
void err_tail_c (int code)
__CPROVER_requires (code == YAEP_NO_RULES && grammar->axiom == NULL)        /* the code names a defect that is present: no rule was read */
__CPROVER_requires (grammar == gh_g && grammar->undefined_p == 1)
__CPROVER_assigns (gh_err_code)
__CPROVER_ensures (0)
;
struct rule *rule_new_start_c (struct symb *lhs, const char *anode, int cost)
__CPROVER_requires (lhs == grammar->axiom && anode == NULL && cost == 0 && gh_impl == 0 && gh_checked == 0)
__CPROVER_assigns (gh_impl)
__CPROVER_ensures (gh_impl == 1 && __CPROVER_is_fresh (__CPROVER_return_value, sizeof (struct rule)))
;
void rule_new_symb_add_c (struct symb *symb)
__CPROVER_requires (gh_impl == 1 && gh_impl_stop == 0 && ((gh_impl_syms == 0 && symb == grammar->term_error) || (gh_impl_syms == 1 && symb == grammar->end_marker)))
__CPROVER_assigns (gh_impl_syms)
__CPROVER_ensures (gh_impl_syms == __CPROVER_old (gh_impl_syms) + 1)
;
void rule_new_stop_c (void)
__CPROVER_requires (gh_impl == 1 && gh_impl_syms == 2 && gh_impl_stop == 0)
__CPROVER_assigns (gh_impl_stop)
__CPROVER_ensures (gh_impl_stop == 1)
;
void check_grammar_c (int strict_p)
__CPROVER_requires (grammar == gh_g && grammar->undefined_p == 1 && gh_checked == 0 && (gh_impl == 0 || gh_impl_stop == 1))    /* the grammar is complete and still marked undefined while it is checked */
__CPROVER_assigns (gh_checked, gh_strict)
__CPROVER_ensures (gh_checked == 1 && gh_strict == strict_p)
;
void finish_terms_c (void)
__CPROVER_requires (grammar == gh_g && grammar->undefined_p == 1 && gh_checked == 1 && gh_finished == 0)
__CPROVER_assigns (gh_finished)
__CPROVER_ensures (gh_finished == 1)
;
void rule_print_c (FILE *f, struct rule *rule, int trans_p) __CPROVER_assigns () __CPROVER_ensures (1);
void term_set_print_c (FILE *f, term_set_el_t *set) __CPROVER_assigns () __CPROVER_ensures (1);
struct symb *nonterm_get_c (int n) __CPROVER_assigns () __CPROVER_ensures (__CPROVER_return_value == NULL);       /* debug output walks the nonterminals: not modelled (V.print not built) */

int gh_some_error_rule;     /* some rule of the start symbol begins with `error' */
int rg_tail_c (int strict_p, struct symb *start)
__CPROVER_requires (grammar == gh_g && grammar != NULL && grammar->undefined_p == 1)
__CPROVER_requires (grammar->debug_level <= 2)                  /* stated restriction of this set: the debug listing (levels 3 and up) is not modelled */
__CPROVER_requires (gh_checked == 0 && gh_finished == 0 && gh_impl == 0 && gh_impl_syms == 0 && gh_impl_stop == 0)
__CPROVER_assigns (grammar->undefined_p, gh_checked, gh_strict, gh_finished, gh_impl, gh_impl_syms, gh_impl_stop, gh_err_code)
/* normal end: definition succeeded */
__CPROVER_ensures (__CPROVER_return_value == 0 && grammar->undefined_p == 0)
__CPROVER_ensures (gh_checked == 1 && gh_strict == strict_p && gh_finished == 1)
__CPROVER_ensures (gh_impl == !gh_some_error_rule && (gh_impl == 0 || (gh_impl_syms == 2 && gh_impl_stop == 1)))
;
void h_rg_tail (void)
{
  struct symb *start, *terr; struct rule *r[2]; struct symb *rhs0[2][2]; int n, i, strict; _Bool e0, e1;
  HAVOC (gh_checked); HAVOC (gh_strict); HAVOC (gh_finished); HAVOC (gh_impl); HAVOC (gh_impl_syms); HAVOC (gh_impl_stop); HAVOC (gh_err_code); HAVOC (gh_some_error_rule);
  grammar = malloc (sizeof (struct grammar)); __CPROVER_assume (grammar != NULL); gh_g = grammar;
  start = malloc (sizeof (*start)); terr = malloc (sizeof (*terr)); __CPROVER_assume (start != NULL && terr != NULL);
  grammar->term_error = terr; __CPROVER_assume (grammar->axiom == NULL || grammar->axiom != start);
  __CPROVER_assume (n >= 0 && n <= 2);
  for (i = 0; i < 2; i++) { r[i] = malloc (sizeof (struct rule)); __CPROVER_assume (r[i] != NULL); r[i]->rhs = rhs0[i]; rhs0[i][1] = NULL; }
  rhs0[0][0] = e0 ? terr : NULL; rhs0[1][0] = e1 ? terr : NULL;
  start->u.nonterm.rules = n >= 1 ? r[0] : NULL; r[0]->lhs_next = n >= 2 ? r[1] : NULL; r[1]->lhs_next = NULL;
  gh_some_error_rule = (n >= 1 && e0) || (n >= 2 && e1);
  verif_rg_tail (strict, start);
  if (gh_impl) VACUITY_CANARY_N ("implicit rule added"); else VACUITY_CANARY_N ("start symbol has its own error rule");
}
